#!/bin/bash
# tools/try_mutant.sh <patch.diff> <Cxx> [<Cxx> ...]
# Applies a seeded change to /repo, runs the named checks (quick tier) and ALWAYS restores /repo.
set -u
PATCH="$1"; shift
cd /repo || exit 2
if [ -n "$(git status --porcelain --untracked-files=no)" ]; then echo "/repo has local changes; refusing"; exit 2; fi
trap 'git -C /repo checkout -- . >/dev/null 2>&1' EXIT
git apply "$PATCH" || { echo "patch does not apply"; exit 2; }
cd /verif
for id in "$@"; do
    out=$(VERIF_OUT=/tmp/verif-mutant-out ./check "$id" ${TIER:-quick} 2>&1); rc=$?
    echo "--- $id exit=$rc"
    echo "$out" | grep -E "^violation|VIOLATION|KNOWN|HARNESS|evaluations" | cut -c1-400 | head -8
done
