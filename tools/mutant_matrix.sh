#!/bin/bash
# tools/mutant_matrix.sh <slot worktree name under /tmp/wt> <mutant dir> [<mutant dir> ...]
# Parallel sensitivity matrix: applies each seeded change to a scratch worktree, points a scratch copy of
# the simulator at it and runs every quick check. (The per-mutant result that is recorded in seeded/<id>/meta.json
# is re-confirmed against /repo itself with tools/try_mutant.sh.)
SLOT="$1"; shift
WT=/tmp/wt/$SLOT; VS=/tmp/vs/$SLOT
mkdir -p $VS
for M in "$@"; do
  cd $WT || exit 2
  git checkout -q -- . ; git clean -qfd -e target
  git apply "$M/patch.diff" || { echo '{"error":"patch does not apply"}' > "$M/matrix.json"; continue; }
  rsync -a --delete --exclude target --exclude out /verif/sim /verif/check /verif/known_findings.json $VS/
  sed -i "s#\"/repo#\"$WT#" $VS/sim/Cargo.toml
  cd $VS
  rm -rf $VS/out; mkdir -p $VS/out
  echo "{" > "$M/matrix.json.tmp"
  first=1
  for id in ${CHECKS:-C01 C02 C03 C04 C05 C06 C07 C08 C10 C13 C14 C15 C16 C17 C20}; do
    out=$(VERIF_WORKERS=${W:-4} VERIF_OUT=$VS/out ./check $id ${TIER:-quick} 2>&1); rc=$?
    rules=$(echo "$out" | grep -E "^violation:" | sed -E 's/.*rule=([^ ]+).*/\1/' | sort -u | tr '\n' ',' | sed 's/,$//')
    [ $first = 1 ] || echo "," >> "$M/matrix.json.tmp"; first=0
    echo "\"$id\": {\"exit\": $rc, \"rules\": \"$rules\"}" >> "$M/matrix.json.tmp"
    if [ $rc = 2 ]; then echo "$out" | tail -20 > "$M/matrix_$id.err"; fi
  done
  echo "}" >> "$M/matrix.json.tmp"; mv "$M/matrix.json.tmp" "$M/matrix.json"
  cd $WT; git checkout -q -- . ; git clean -qfd -e target
done
