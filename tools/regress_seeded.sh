#!/bin/bash
# tools/regress_seeded.sh <list of seeded ids...> : for each /verif/seeded/<id> apply patch.diff to SWEEP_REPO (scratch worktree), run only the
# first check that caught it before (meta.json caught_by[0]) from VERIF_HOME (simulator copy pointing at that worktree) and print one line.
R=${SWEEP_REPO:?}; V=${VERIF_HOME:?}
for id in "$@"; do
  d=/verif/seeded/$id
  chk=$(python3 -c "import json;m=json.load(open('$d/meta.json'));print((m.get('caught_by') or [''])[0])")
  [ -n "$chk" ] || { echo "$id - (never caught)"; continue; }
  git -C $R checkout -q -- . ; git -C $R apply "$d/patch.diff" 2>/dev/null || { echo "$id PATCH-DOES-NOT-APPLY"; continue; }
  out=$(cd $V && VERIF_OUT=/tmp/regress-out/$id ./check $chk quick 2>&1); rc=$?
  echo "$id $chk exit=$rc $(echo "$out" | grep -E '^violation:' | sed -E 's/.*rule=([^ ]+).*/\1/' | sort -u | tr '\n' ',')"
  git -C $R checkout -q -- .
done
