#!/usr/bin/env python3
"""Copies confirmed seeded changes into /verif/seeded/<id>/ with a meta.json, and prints the table for DESIGN.md section 13.
usage: assemble_seeded.py <root round 1> <root round 2> ..."""
import json, os, re, shutil, sys, subprocess
HERE = os.path.dirname(os.path.dirname(os.path.abspath(__file__)))
props = {json.loads(l)['id']: json.loads(l) for l in open(os.path.join(HERE, 'properties.jsonl'))}
rows = []
# seeded changes that no longer have an effect on the repaired tree (kept for the record)
OBSOLETE = {
    'C07-r5-m1': 'its symptom (a client left with less than a period to echo) turned out to exist on the unchanged tree as well, for slow authentication (finding F14); the repair 2c4f7c3 (MissedTickBehavior::Delay) removes it at the root, so on the repaired tree this change no longer breaks the property and no longer applies cleanly. patch.diff is against fb23c2b; the detection recorded here was obtained against that tree.',
}
head = subprocess.run(['git', '-C', '/repo', 'rev-parse', '--short', 'HEAD'], capture_output=True, text=True).stdout.strip()
for root in sys.argv[1:]:
    rnd = os.path.basename(os.path.normpath(root)).lstrip('r') or '0'
    for pid in sorted(os.listdir(root)):
        d0 = os.path.join(root, pid)
        if not re.fullmatch(r'C\d\d', pid) or not os.path.isdir(d0):
            continue
        for m in sorted(os.listdir(d0)):
            d = os.path.join(d0, m)
            if not re.fullmatch(r'm\d+', m) or not os.path.exists(os.path.join(d, 'patch.diff')):
                continue
            conf = json.load(open(os.path.join(d, 'confirm.json'))) if os.path.exists(os.path.join(d, 'confirm.json')) else {}
            ok = conf.get('demo_clean_exit') == 0 and conf.get('demo_patched_exit') not in (0, None) and conf.get('suite_passed_failed') == '77 0'
            if not ok:
                print('SKIP (not confirmed):', d, conf)
                continue
            caught = []
            ran = []
            clean = []
            cpath = os.path.join(d, 'caught.txt')
            if os.path.exists(cpath):
                # (a record may span lines when a violation message itself contains the word "evaluations": join them)
                joined, cur = [], None
                for raw in open(cpath):
                    raw = raw.rstrip('\n')
                    if re.match(r'(C\d\d) exit=\d+ ', raw) or raw.startswith('clean_replay ') or raw.startswith('check ') or raw.startswith('HARNESS'):
                        if cur is not None:
                            joined.append(cur)
                        cur = raw
                    elif cur is not None:
                        cur += ' ' + raw
                if cur is not None:
                    joined.append(cur)
                for line in joined:
                    hist = re.match(r'(C\d\d) exit=(\d+) evaluations=violation:.* (\d+) rules=(.*)', line.strip())
                    if hist:
                        line = f'{hist.group(1)} exit={hist.group(2)} evaluations={hist.group(3)} rules={hist.group(4)}'
                    cr = re.match(r'clean_replay (\S+) exit=(\d+)', line.strip())
                    if cr:
                        clean.append({'replay': cr.group(1), 'reproduces_on_unchanged_tree': cr.group(2) != '0'})
                        continue
                    mm = re.match(r'(C\d\d) exit=(\d+) evaluations=(.*?) rules=(.*)', line.strip())
                    if mm:
                        ran.append({'check': mm.group(1), 'tier': 'quick', 'exit': int(mm.group(2)), 'evaluations_until_stop': int(mm.group(3)) if mm.group(3).isdigit() else 0, 'rules': [r for r in mm.group(4).split(',') if r]})
                        if mm.group(2) == '1':
                            caught.append(mm.group(1))
            sid = f'{pid}-r{rnd}-{m}'
            out = os.path.join(HERE, 'seeded', sid)
            os.makedirs(out, exist_ok=True)
            for f in ['patch.diff', 'demo.diff', 'demo_cmd.txt', 'notes.md']:
                if os.path.exists(os.path.join(d, f)):
                    shutil.copy(os.path.join(d, f), os.path.join(out, f))
            notes = open(os.path.join(d, 'notes.md')).read() if os.path.exists(os.path.join(d, 'notes.md')) else ''
            first = next((l.strip('# ').strip() for l in notes.splitlines() if l.strip()), '')
            meta = {
                'id': sid,
                'breaks_property': pid,
                'property_title': props[pid]['title'],
                'summary': first,
                'needs_to_manifest': ' '.join(l.strip() for l in notes.splitlines()[1:] if l.strip())[:900] + ' (full text: notes.md, written by the sub-agent that produced the change, which saw only the property text)',
                'applies_to_repo_commit': head,
                'confirmed': {
                    'how': 'tools/confirm_mutant.sh in a scratch worktree: demo alone passes, demo + patch fails, pinned suite with the patch alone',
                    'demo_cmd': conf.get('demo_cmd'), 'demo_exit_unpatched': conf.get('demo_clean_exit'), 'demo_exit_patched': conf.get('demo_patched_exit'), 'suite_passed_failed_with_patch': conf.get('suite_passed_failed'),
                },
                'checks_run': {'how': 'tools/sweep_mutants.sh: git -C /repo apply patch.diff; ./check <id> quick; git -C /repo checkout -- .', 'results': ran},
                'caught_by': caught,
                **({'obsolete_on_repaired_tree': OBSOLETE[sid]} if sid in OBSOLETE else {}),
                'minimised_replays_on_unchanged_tree': clean,
            }
            json.dump(meta, open(os.path.join(out, 'meta.json'), 'w'), indent=1)
            rows.append((sid, first[:110], ', '.join(f"{r['check']} ({'/'.join(r['rules'][:2])})" for r in ran if r['exit'] == 1) or '**not caught**', ', '.join(r['check'] for r in ran if r['exit'] == 0)))
lines = ['# Seeded property-breaking changes', '',
         'Each directory holds one change to scrayosnet/passage that breaks one of the given properties while the project still',
         'compiles and its 77 pinned tests still pass: `patch.diff` (apply with `git -C /repo apply`), `demo.diff` + `demo_cmd.txt`',
         '(a demonstration that passes without the patch and fails with it), `notes.md` (what it needs in order to manifest, written by',
         'the sub-agent that produced it from the property text alone) and `meta.json` (confirmation and which checks caught it).',
         'None of them is ever committed to /repo. The table is written by `tools/assemble_seeded.py` from the sweep results',
         '(`tools/sweep_mutants.sh`: quick tier of the property\'s own check and its neighbours).', '',
         '| seeded change | what it does | caught by (rules) | ran clean |', '|---|---|---|---|']
for r in rows:
    lines.append('| ' + ' | '.join(r) + ' |')
own = sum(1 for r in rows if r[0].split('-')[0] + ' (' in r[2])
lines += ['', f'{len(rows)} changes; caught by at least one check: {sum(1 for r in rows if "not caught" not in r[2])}; caught by the check of the property they were written against: {own}.']
open(os.path.join(HERE, 'seeded', 'README.md'), 'w').write('\n'.join(lines) + '\n')
print('| seeded change | what it does | caught by (rules) | ran clean |')
print('|---|---|---|---|')
for r in rows:
    print('| ' + ' | '.join(r) + ' |')
print(len(rows), 'seeded changes;', sum(1 for r in rows if 'not caught' in r[2]), 'not caught')
