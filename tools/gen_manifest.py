#!/usr/bin/env python3
"""Writes /verif/MANIFEST.json from the table below (kept next to the checks so it stays in step)."""
import json, os, subprocess
HERE = os.path.dirname(os.path.dirname(os.path.abspath(__file__)))

CLAIMED = {
    "C01": dict(cat="exploration", ref="DESIGN.md 4 (C01)",
        text="Seeded search over connections (intent, secret, claimed identity, authentication verdict incl. errors and latency, 8 Encryption Response variants, valid and subtly invalid cookies) through the real Connection; history oracle: grant packets require an honest token and a voucher, the service is asked with the connection's secret / key / claim, every later use of the identity (Login Success, filter, strategy, issued cookie) is the vouched one. Later rounds added: zero-time transport faults (frames coalesced into one read, cuts down to one byte, spurious Pending, short write acceptance), the token of a real previous connection, degenerate verdicts (empty name, nil UUID), long names, 5-8 KB profiles, and the rule that every service call carries the connection's own client address. Fourth round: two-connection histories in which an earlier connection of the same process is accepted with a genuine cookie and the next one presents that cookie's tag in front of a body naming somebody else (primes whatever the code keeps between connections). One evaluation in ten runs the listener mode: 2-14 players log in through one real Listener at nearly the same time, each with a claim, an address and (for some) a genuine cookie of its own; every Login Success must carry the identity vouched for on that very connection (props/swarm.rs). Later waves: the same claim twice from one address with a failing service the second time, any Client Information field values.",
        note="Scripted authentication service stands in for the session server; independent client codec/RSA/CFB8 trusted (interoperates with the real server on every honest run).",
        tech="deterministic simulation; history invariants over the recorded event log"),
    "C02": dict(cat="fault_enumeration", ref="DESIGN.md 4 (C02)",
        text="The cookie-variant axis (exact, every truncation length, every single-bit flip, other secrets, non-JSON / wrong-shape bodies under a valid tag, absent, empty, untagged) is enumerated by run index over fresh base cookies; intent, configured secret, presenting IP and age-vs-expiry boundaries are sampled. The acceptance predicate is recomputed independently (own HMAC, own JSON shape check, exact wall-clock second). Later rounds added: a quarter of the runs present the exact valid cookie (acceptance side), the client answers the cookie request up to an hour late with wall-clock steps in between (age measured at the check), secrets of 64-200 bytes and other secrets sharing a long prefix, zero-time transport faults. Fourth round: a quarter of the runs are two-connection histories (the genuine cookie is accepted first, the variant follows in the same process); forged well-formed bodies - another identity, a later timestamp - under the genuine tag.",
        note="Trusts the oracle's HMAC/JSON check and the simulated wall clock being the only clock read (hook H2).",
        tech="deterministic simulation; enumerated cookie faults; independent acceptance predicate"),
    "C03": dict(cat="exploration", ref="DESIGN.md 4 (C03)",
        text="Seeded routing scenarios (target lists with duplicates and IPv6, every filter/strategy outcome incl. errors, latencies up to 40 s, client locales against random tables through the real FixedLocalizationAdapter); oracle: pipeline wiring equalities from the call log, exactly one final Transfer naming the chosen address or one localized Disconnect, nothing after it. Later rounds added: IPv4-mapped / IPv4-compatible / loopback / unspecified / port-boundary target addresses, non-ASCII messages, locales beyond 16 bytes, zero-time transport faults incl. padded frame length prefixes. Fourth round: messages of 16-33 KB (three-byte frame length prefix), a Keep Alive held back by the transport across the completion of a back-end call. One evaluation in eight runs the listener mode (several players through one real Listener, a discovery answer per call, the strategy picks by player): each connection's filters, strategy, Transfer and issued cookie must be fed from its own calls. Also: clients that take seconds to hang up after the final packet, back-ends whose first call fails although a second would succeed, an earlier connection of the thread that ended with a broken transport. Later waves: an application mode (passage::start with the localization tables in its configuration and nothing to route to), thousands of distinct client locales, names that merely begin like a table, ports at VarInt boundaries.",
        note="Locale tables lacking the applicable key are don't-care; text components compared as values.",
        tech="deterministic simulation; wiring equalities + independent locale fallback"),
    "C06": dict(cat="exploration", ref="DESIGN.md 4 (C06)",
        text="Seeded scripted serverbound sequences (legal script with one deviation: close/reset, duplicate, skipped packet, unknown next-state, dishonest Encryption Response, any packet id of any phase) run against the real Connection; the observed clientbound kind sequence must equal the output of a reference automaton written from the property text; status body equals the service answer as a JSON value, Pong echoes the payload, no routing call before Login Acknowledged and Client Information. Later rounds added: burst scripts (every frame in the pipe before the server reads the first), coalesced reads, cuts, padded length prefixes. Fourth round: status answers of 3-30 KB (around and beyond the three-byte length prefix at 16384). Also: a status service that takes up to 3 s while the ping is already in the pipe, returning players with a genuine cookie in the scripts (a dishonest Encryption Response still ends the connection), an earlier connection that ended with a broken transport.",
        note="Unknown packets inside the configuration phase and unclassifiable bodies under the expected id are don't-care from that point (prefix compared).",
        tech="deterministic simulation; refinement against a reference protocol automaton"),
    "C07": dict(cat="exploration", ref="DESIGN.md 4 (C07)",
        text="Seeded schedules under virtual time (service latencies 0-100 s incl. exactly 16/32 s, late Login Acknowledged / Client Information, per-keep-alive echo policy: prompt, delayed below/above the period, never, wrong id, duplicate, unsolicited) with tie-free offsets; ex-post timing oracle on the server's writes: a tick event at least every 16 s, timeout iff the previous Keep Alive was not echoed strictly before, otherwise the correct final packet at the instant the last service completes. Later rounds added: client think time of 0-40 s in the login phase (nothing but login packets before Login Success), a client that pipelines Login Acknowledged behind its Encryption Response while authentication takes several periods, and the rule that a timeout at the very instant of the Keep Alive drops a prompt client. Fourth round: a back-pressure mode (silent client, routing of 70 s and more, the first Keep Alive held back entirely or after a few bytes until the running back-end call completes) judged by counts and order only. A timeout that follows the Keep Alive it refers to by less than 15 s (the protocol's response time) is a violation - the check's reading of 'before the next is due', found defect F14 on the unchanged tree.",
        note="Exact ties with a tick are excluded by construction; transport instantaneous here (C08 owns segmentation).",
        tech="deterministic simulation under paused clock; timing invariants and bounded liveness on virtual timestamps"),
    "C08": dict(cat="fault_enumeration", ref="DESIGN.md 4 (C08)",
        text="Differential: each generated scenario is executed unsegmented (reference) and under a transport fault plan (variant): half of the runs enumerate a cut at (frame, byte offset) by run index with a gate from {spurious Pending, 1 ms, seconds, just after the next keep-alive tick, just after the next service completion}, the rest use multi-cut / one-byte-at-a-time plans and write-acceptance plans (1-byte and short prefixes, Pending for a duration, Pending until a service completes). Masked clientbound packets, service call log and result class must be identical; frames must arrive complete; bounded completion after the last event. Later rounds added: coalesced reads in the variant, richer bases (authentication latency and verdicts, valid cookies), a write fault aimed at one Keep Alive frame (short accept + held until the running service completes), silent clients as bases. Fourth round: clients that pipeline behind their Encryption Response among the bases, write holds aimed at the timeout Disconnect (found defect F13 on the unchanged tree in the thorough tier, now within the first evaluations of the quick tier), an earlier connection that ended with a broken transport with a before/after comparison of the undisturbed execution.",
        note="A variant is judged only if every keep-alive echo was still available in time (measured from the pipe, not assumed); masked: verify token, session/trace id, cookie second, keep-alives.",
        tech="deterministic simulation; differential trace equality under enumerated segmentation and write-acceptance faults"),
    "C10": dict(cat="exploration", ref="DESIGN.md 4 (C10)",
        text="Two-connection histories (authenticate + route, then present what was stored after a wall-clock gap around the expiry boundary or a backwards step) with secrets of any length, expiry up to 2^64-1, IPv4/IPv6, port changes, session cookie presented or not; oracle: independent HMAC over the issued cookie, body completeness against connection facts and the simulated clock, acceptance and same identity on the second connection, session-cookie rules. Later rounds added: secrets around one HMAC block (63/64/65/128 bytes), Forge-style hosts with NUL, a second connection handled under another configured expiry, zero-time transport faults, service calls must carry each connection's own address. Later waves: first connections that present a refused cookie (fresh authentication must still issue one), unreadable session cookies (never replaced), a second client answering inside a wall-clock second, cookies sized around 5000 / 5120 bytes, handshake hosts with a forwarded-address trailer.",
        note="Trusts the oracle's HMAC/JSON check; gap beyond expiry is left to C02.",
        tech="deterministic simulation; two-connection history check with simulated wall clock"),
    "C04": dict(cat="fault_enumeration", ref="DESIGN.md 4 (C04)",
        text="Four honest transcripts with exactly one mutation enumerated by run index over every frame and byte offset (outer length boundary values with the prefix delivered alone, truncation at every offset + EOF/reset, every offset replaced by hostile VarInts / bytes / invalid UTF-8 with the outer length repaired, junk appended, wire bit flips incl. ciphertext, 12 Encryption Response variants), several maximum frame sizes, a third under segmentation. Observed: panic hook, counting allocator (largest single request while the handler is polled), virtual time from EOF delivery to return, reads after EOF. Later rounds added: frames really longer than the maximum delivered whole in one segment at every protocol step, bursts of 200-3000 valid ignorable frames in one segment (buffer growth), odd locales with the no-target Disconnect path, a watchdog that turns a non-yielding loop into a violation with replay. Fourth round: legal ignorable frames of exactly max / max-1 / max-2 / max-3 bytes (whole, in pieces, followed by EOF) must be consumed. Also: unsolicited Keep Alive ids at the edge of the value range, length prefixes that put 2^21 / 2^28 / 2^30 over the frame's real length. Later waves: the scripted services count back-end calls that are being waited for - none may be left after the handler returned; lookups that take a while; locales that split a character at byte 16.",
        note="Samples random bytes for junk/flip positions; allocation bound max(64 KiB, 8 x max frame) is the check's reading of 'out of proportion'.",
        tech="deterministic simulation; enumerated frame mutations with panic/allocation/termination monitors"),
    "C05": dict(cat="fault_enumeration", ref="DESIGN.md 4 (C05)",
        text="Seeded search over poll-level I/O schedules against the real CipherStream (Pending, prefix acceptance, retry with another buffer, reads down to 1 byte, pre-filled ReadBuf, switch at any operation boundary) plus whole logins through the real Connection under write faults; oracle is an independent CFB8 on the raw AES block function. Samples schedules, does not enumerate them all. Fourth round: bytes read ahead of the switch and decrypted in place (decrypt_buffered) as an operation of the unit layer; clients that pipeline behind their Encryption Response in the login layer. Also: gathered writes (poll_write_vectored over two or three slices against a transport that accepts them). Later waves: a listener mode in which the listener's deadline strikes in the encrypted phase - whatever is put on the socket at the end must still be part of the one encrypted stream.",
        note="Trusts the oracle's 25-line CFB8 and the aes crate's block function; transport is the scripted stub.",
        tech="deterministic simulation: scripted-transport fault injection, independent CFB8 oracle"),
    "C13": dict(cat="exploration", ref="DESIGN.md 4 (C13)",
        text="Seeded arrival histories against the real RateLimiter under tokio virtual time; black-box oracle: per-window and sliding bounds, re-admission after 2d idle, metamorphic duplicate-rejected relation, per-key differential run (cleanup neutrality), tracked-keys bound through hook H3. Later rounds added: address scans (fresh keys only), 66-70 thousand fresh keys anywhere in the history, limiter uptimes around 2^31 / 2^32 ms and 400 days; the per-key differential prefers keys that come back. A panicking limiter is reported as a violation.",
        note="Trusts tokio's paused clock and that tracked_keys() equals the published gauge value.",
        tech="deterministic simulation under virtual time; history oracles (bounds, metamorphic, differential)"),
}

CLAIMED.update({
    "C14": dict(cat="exploration", ref="DESIGN.md 4 (C14)",
        text="Seeded configurations started through passage::start(config) with built-in adapters, or as a Listener with sim services whose discovery never answers, on the simulated network; clients probe the configured frame limit at max / max+1, cookies at expiry-1 / expiry / expiry+1 under the configured or another secret, and the deadline (silent, trickling one byte every k s, stopping after n frames, echoing keep-alives forever). Oracle: served / refused according to the configured values, server end closed no later than timeout after accept. Later rounds added: PROXY protocol on (admission = header complete, itself bounded by the timeout), trickling headers, a client that stops reading, secrets with surrounding whitespace, timeout 0. Fourth round: an over-long frame after login once the read buffer has grown, cookies answered seconds late (age at the check), and the server must let go of the socket - not only end its own direction - by the deadline. Also: handshake frames that declare their real length plus 2^21 / 2^28 / 2^30, prefix delivered first, must be refused on the declared length. Later waves: secrets through the environment variable / secret file and Config::read(), secrets beyond one HMAC block, client locales, handshake frames of 254 / 382 / 510 bytes, one second of grace for letting go of the socket.",
        note="Built-in Fixed adapters stand in for back-ends in start mode; the interrupt signal is not raised here (C17 does).",
        tech="deterministic simulation on an in-memory network; config-conformance and deadline invariants"),
    "C15": dict(cat="exploration", ref="DESIGN.md 4 (C15)",
        text="Seeded arrival histories of up to 40 connections through 1-3 load-balancer peers with PROXY v1/v2 headers from an independent writer (valid, LOCAL/UNKNOWN, bad signature, truncated+EOF, absent, disabled version), limiter off or small enough to refuse; oracle: a second real RateLimiter fed with the effective IPs of the valid connections at the same virtual instants decides who must be served; refused and invalid connections receive zero bytes; services and issued cookies see the announced source. Later rounds added: headers that trickle in (admission and limiter feed at header completion, ties give no verdict), header and handshake in one read, datagram-transport v2 headers. Fourth round: part of a header followed by silence until the listener's deadline (2 s or 30 s) consumes no budget. A quarter of the histories run through passage::start (configuration -> limiter / PROXY wiring); IPv4-mapped, IPv4-compatible and loopback sources. Later waves: clients that hang up after the handshake frame (charged all the same), limit 0, handshake hosts with a forwarded-address trailer.",
        note="The shadow limiter is the real one so limiter defects are not misattributed (C13 owns them).",
        tech="deterministic simulation on an in-memory network; shadow-limiter history oracle"),
    "C16": dict(cat="exploration", ref="DESIGN.md 4 (C16)",
        text="1-20 hostile clients (silent before / stalled inside / trickling the PROXY header, stopping mid-protocol, stalled mid-frame, never echoing, never reading) plus one well-behaved victim; every scenario is run with everybody and with the victim alone and the victim's timestamped trace must be identical (compute is free in virtual time, so any difference is waiting caused by another connection). Later rounds added: up to 64 hostile clients, everybody behind one or two load-balancer peers, crowds that misbehave the same way, hostile clients sharing addresses (limiter refusals kept open), listener uptimes of 6 h / 1 d / 49.7 d with an ordinary login at the very start. Fourth round: one run in 160 a crowd of 260-2100 connections held open. Later waves: hostile clients that claim the victim's identity, stall in the middle of a write, speak nonsense, or are turned down by the authentication service (which fails by name, so the victim's own login is unaffected).",
        note="Victim has its own effective IP so the limiter cannot couple it to the others. Needs-two-OS-threads effects (e.g. try_lock contention) are outside a single-threaded simulation.",
        tech="deterministic simulation; non-interference as timed-trace equality with the solo run"),
    "C17": dict(cat="exploration", ref="DESIGN.md 4 (C17)",
        text="0-10 connections at various stages and a stop request at a random instant, deliberately also at the exact instant of a connect (issued before or after it); each scenario runs with and without the stop. Oracle: nothing served to connections that arrived after the stop, they see EOF by the time listen() returns; connections accepted strictly before the stop end exactly as in the stop-free run; listen() returns Ok, no earlier than the last served connection's end and within the timeout. Later rounds added: PROXY protocol with headers completing seconds after the accept or just inside the deadline, a third of the histories through passage::start stopped by the simulated interrupt (hook H6), a sibling connection task that panics (injected back-end bug) while others drain. Later waves: within the stop's instant the stop can be called from a task queued behind the listener (accepted, connection task not yet polled) - 'in progress' is what the listener had accepted when the stop was called; a third of the application runs use the real Agones adapter against the simulated API server; status clients that dawdle before their ping, a slow status service; rare crowds of short connections around one slow login.",
        note="Connects issued at the stop's own instant before it count as queued: fully served or nothing are both accepted. Keep Alive packets are excluded from the comparison (tick ties).",
        tech="deterministic simulation with a stop signal at arbitrary and tied instants; differential drain oracle"),
    "C20": dict(cat="exploration", ref="DESIGN.md 4 (C20)",
        text="The real AgonesDiscoveryAdapter, kube client stack and kube-runtime watcher/backoff run against an in-process simulated Kubernetes API server under virtual time: seeded histories of create / replace (all Agones states, unconvertible shapes) / delete with BOOKMARKs, dropped watches (EOF, I/O error, mid-line), HTTP 500, compaction and in-stream 410 (re-list), expired continue tokens, pagination, latency, arbitrary chunk boundaries, duplicate delivery, watch timeouts. After every step the run settles (bounded liveness, 180 s virtual) and discover() must equal the set derived from the server's single-copy store. Later rounds added: invariants sampled at every unsettled instant (a server offerable at the last settle point and untouched since stays offered with exactly that data; nothing is offered in a version that never existed), busy histories without settling between steps, aborted re-lists, store changes fused with a stream failure, the application's DynDiscoveryAdapter wrapper. Later waves: outages of seven or eight refused watch requests in a row (the settle bound grows with the longest outage).",
        note="The simulated server is written to the list/watch contract kube-runtime expects.",
        tech="deterministic simulation against a simulated API server; reference-model (single-copy store) comparison at settle points + bounded liveness"),
})

NOT_APPLICABLE = {
    "C09": "pure codec function of the packet value; in Connection the codec only ever runs on a fully buffered frame, so no schedule, clock or fault reaches it (stream-level decoding under segmentation is C08)",
    "C11": "minecraft_hash is a pure function of three byte strings; nothing to schedule or inject",
    "C12": "request URL is a pure string of name and hash, only observable through reqwest's real sockets which cannot be put behind the simulated transport; no schedule or fault dimension",
    "C18": "built-in filters and strategies are pure functions of (configuration, targets, player, host)",
    "C19": "gRPC conversions and request assembly are pure; the I/O is tonic's own transport to a live service, outside the simulator",
}

PENDING = {}

def main():
    ids = [json.loads(l)["id"] for l in open(os.path.join(HERE, "properties.jsonl"))]
    checks = []
    for pid in ids:
        if pid in CLAIMED:
            c = CLAIMED[pid]
            checks.append({
                "property_id": pid,
                "quick_cmd": f"./check {pid} quick",
                "thorough_cmd": f"./check {pid} thorough",
                "evidence_file": f"evidence/{pid}.json",
                "replay_cmd_template": "./check replay {path}",
                "engine": "sim",
                "level_claimed": {"category": c["cat"], "text": c["text"], "design_ref": c["ref"]},
                "level_note": c["note"],
                "technique": c["tech"],
            })
    na = []
    for pid in ids:
        if pid in CLAIMED:
            continue
        if pid in NOT_APPLICABLE:
            na.append({"property_id": pid, "reason": NOT_APPLICABLE[pid]})
        else:
            na.append({"property_id": pid, "reason": PENDING.get(pid, "not claimed yet: the check is planned (DESIGN.md section 4) but not built in this commit")})
    hooks = subprocess.run(["git", "-C", "/repo", "log", "--format=%H %s"], capture_output=True, text=True).stdout.splitlines()
    hook_commits = [l.split()[0] for l in hooks if "verif hook" in l]
    m = {
        "version": 1,
        "setup_cmd": "./check build",
        "hooks": {
            "guard": "passage_verif",
            "enable": "RUSTFLAGS=\"--cfg passage_verif --cfg tokio_unstable\" (set in sim/.cargo/config.toml; the simulator crate has path dependencies on /repo's crates)",
            "baseline_off_cmd": "cd /repo && cargo test --workspace --no-fail-fast --offline",
            "source_commits": hook_commits[::-1],
            "add_only": True,
        },
        "engines": [{
            "name": "sim", "path": "sim/",
            "serves_properties": sorted(CLAIMED.keys()),
            "kind_free_text": "deterministic simulator: real passage code on a current-thread tokio runtime with paused clock and seeded select!, in-memory fault-injecting transport, scripted services, independent client; seeded search over schedules and faults with shrinking and replay files",
        }],
        "checks": checks,
        "not_applicable": na,
        "notes": "All checks: exit 0 held / 1 + 'VIOLATION property=<id> replay=<path>' / 2 harness error. VERIF_SEED selects the batch seed (default 1). known_findings.json lists recorded and fixed findings; ./check selftest determinism proves replayability.",
    }
    json.dump(m, open(os.path.join(HERE, "MANIFEST.json"), "w"), indent=1)
    print("wrote MANIFEST.json:", len(checks), "checks,", len(na), "not claimed")

if __name__ == "__main__":
    main()
