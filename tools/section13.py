#!/usr/bin/env python3
"""Rewrites section 13 of DESIGN.md (sensitivity results) from seeded/*/meta.json."""
import json, os, glob, re, collections
HERE = os.path.dirname(os.path.dirname(os.path.abspath(__file__)))
metas = [json.load(open(f)) for f in sorted(glob.glob(os.path.join(HERE, 'seeded', '*', 'meta.json')))]
waves = collections.OrderedDict()
for m in metas:
    w = re.search(r'-(r\d+)-', m['id']).group(1)
    waves.setdefault(w, []).append(m)
lines = ['## 13. Sensitivity results',
         '',
         'Every seeded change was written by a sub-agent that saw only the text of one property and its own scratch worktree, was',
         'confirmed independently (`tools/confirm_mutant.sh`: the demonstration passes without the patch and fails with it, the 77',
         'pinned tests pass with the patch alone) and is kept under `seeded/<id>/`. `tools/sweep_mutants.sh` applied each one to a',
         'scratch worktree, ran the quick tier of the property\'s own check and of its neighbours, and replayed every minimised',
         'scenario on the unchanged tree. The full table (one row per change, with the rules that fired) is `seeded/README.md`;',
         'each `meta.json` names what was run. The waves `r1`-`r3` of the earlier sessions lived outside /verif and were lost in a',
         'sandbox restore; what they led to is described in sections 10-10.2.',
         '',
         '| wave | changes | caught by some check (quick tier) | caught by the property\'s own check | not caught |',
         '|---|---|---|---|---|']
tot = [0, 0, 0]
missed = []
for w, ms in waves.items():
    some = [m for m in ms if m['caught_by']]
    own = [m for m in ms if m['breaks_property'] in m['caught_by']]
    miss = [m for m in ms if not m['caught_by']]
    missed += miss
    tot = [tot[0] + len(ms), tot[1] + len(some), tot[2] + len(own)]
    lines.append(f'| {w} | {len(ms)} | {len(some)} | {len(own)} | {", ".join(m["id"] for m in miss) or "-"} |')
lines.append(f'| all | {tot[0]} | {tot[1]} | {tot[2]} | {len(missed)} |')
lines += ['', 'Which check caught how many (a change may be caught by several):', '', '| check | changes written against it | of those caught by it | changes written against other properties that it caught |', '|---|---|---|---|']
for cid in sorted({m['breaks_property'] for m in metas}):
    own = [m for m in metas if m['breaks_property'] == cid]
    lines.append(f'| {cid} | {len(own)} | {sum(1 for m in own if cid in m["caught_by"])} | {sum(1 for m in metas if m["breaks_property"] != cid and cid in m["caught_by"])} |')
lines += ['']
notes = os.path.join(HERE, 'tools', 'section13_notes.md')
if os.path.exists(notes):
    lines += open(notes).read().rstrip('\n').split('\n')
p = os.path.join(HERE, 'DESIGN.md')
s = open(p).read()
i = s.index('## 13. Sensitivity results')
open(p, 'w').write(s[:i] + '\n'.join(lines) + '\n')
print('section 13 rewritten:', tot, 'missed', [m['id'] for m in missed])
