#!/bin/bash
# tools/confirm_mutant.sh <worktree> <mutant dir>   (scratch worktree outside /repo and /verif)
# Confirms independently: demo passes without the patch, fails with it, and the pinned suite (77 tests) still passes with the patch.
WT="$1"; M="$2"
cd "$WT" || exit 2
export CARGO_NET_OFFLINE=true
git checkout -q -- . ; git clean -qfd -e target
CMD=$(grep -v '^\s*$' "$M/demo_cmd.txt" | grep -v '^#' | grep cargo | head -1)
CMD=${CMD//\`/}
r() { timeout 1500 bash -c "$1" >"$2" 2>&1; echo $?; }
git apply "$M/demo.diff" || { echo "{\"error\":\"demo.diff does not apply\"}" > "$M/confirm.json"; exit 1; }
d0=$(r "$CMD" "$M/confirm_demo_clean.log")
git apply "$M/patch.diff" || { echo "{\"error\":\"patch.diff does not apply\"}" > "$M/confirm.json"; git checkout -q -- . ; git clean -qfd -e target; exit 1; }
d1=$(r "$CMD" "$M/confirm_demo_patched.log")
# the suite with only the patch
git checkout -q -- . ; git clean -qfd -e target
git apply "$M/patch.diff"
s=$(r "cargo test --workspace --no-fail-fast --offline" "$M/confirm_suite_patched.log")
passed=$(grep -E "^test result" "$M/confirm_suite_patched.log" | awk '{p+=$4; f+=$6} END {print p" "f}')
git checkout -q -- . ; git clean -qfd -e target
echo "{\"demo_cmd\": \"$CMD\", \"demo_clean_exit\": $d0, \"demo_patched_exit\": $d1, \"suite_patched_exit\": $s, \"suite_passed_failed\": \"$passed\"}" > "$M/confirm.json"
cat "$M/confirm.json"
