#!/bin/bash
# tools/sweep_mutants.sh <root of mutant dirs> : for every <root>/<Cxx>/m<k>/patch.diff apply it to /repo (or to SWEEP_REPO, a scratch worktree the simulator copy under VERIF_HOME points at), run the
# property's own check and its neighbours (quick tier), restore /repo. Writes <dir>/caught.txt.
# OWN_ONLY=1: only the property's own check; CAUGHT=<file name>: write there instead of caught.txt (a regression pass that leaves the full results alone).
ROOT="$1"
declare -A REL=( [C01]="C01 C02 C06 C10 C16" [C02]="C02 C01 C10 C14 C15" [C03]="C03 C07 C08 C01" [C04]="C04 C06 C14 C08" [C05]="C05 C08 C06" [C06]="C06 C01 C07 C08 C14 C03 C15" [C07]="C07 C08 C06 C03 C14" [C08]="C08 C04 C05 C06" [C10]="C10 C02 C14" [C13]="C13 C15" [C14]="C14 C04 C02 C10 C15" [C15]="C15 C13 C02 C10" [C16]="C16 C14 C04" [C17]="C17 C14" [C20]="C20" )
R=${SWEEP_REPO:-/repo}
cd $R || exit 2
if [ -n "$(git status --porcelain --untracked-files=no)" ]; then echo "$R has local changes; refusing"; exit 2; fi
trap 'git -C $R checkout -- . >/dev/null 2>&1' EXIT
for d in ${ONLY:-$ROOT/C*/m*}; do
  [ -f "$d/patch.diff" ] || continue
  pid=$(basename $(dirname $d))
  git -C $R checkout -- . >/dev/null 2>&1
  if ! git -C $R apply "$d/patch.diff" 2>/dev/null; then echo "$d: PATCH DOES NOT APPLY" | tee "$d/caught.txt"; continue; fi
  CF="$d/${CAUGHT:-caught.txt}"
  : > "$CF"
  rel="${REL[$pid]}"; [ -n "$OWN_ONLY" ] && rel="$pid"
  for id in $rel; do
    rm -rf "$d/out/$id"; mkdir -p "$d/out/$id"
    out=$(cd ${VERIF_HOME:-/verif} && VERIF_OUT="$d/out/$id" ./check "$id" ${TIER:-quick} 2>&1); rc=$?
    rules=$(echo "$out" | grep -E "^violation:" | sed -E 's/.*rule=([^ ]+).*/\1/' | sort -u | tr '\n' ',' | sed 's/,$//')
    ev=$(echo "$out" | grep -E "evaluations" | sed -E 's/.*: ([0-9]+) evaluations.*/\1/')
    echo "$id exit=$rc evaluations=$ev rules=$rules" >> "$CF"
    if [ $rc = 2 ]; then echo "$out" | tail -15 >> "$CF"; fi
  done
  git -C $R checkout -- . >/dev/null 2>&1
  echo "== $d"; cat "$CF"
done
# every minimised scenario must pass on the unchanged tree (a replay that also fails there would mean the check
# itself is wrong for that scenario, e.g. the shrinker left the check's domain)
git -C $R checkout -- . >/dev/null 2>&1
for d in ${ONLY:-$ROOT/C*/m*}; do
  for f in "$d"/out/*/replays/*.json; do
    [ -f "$f" ] || continue
    (cd ${VERIF_HOME:-/verif} && ./check replay "$f" >/dev/null 2>&1); rc=$?
    echo "clean_replay $(basename $f) exit=$rc" >> "$d/${CAUGHT:-caught.txt}"
    [ $rc = 0 ] || echo "!! $f reproduces on the unchanged tree (exit $rc)"
  done
done
