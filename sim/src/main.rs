#![allow(clippy::too_many_arguments)]
#![allow(dead_code)]
mod alloc;
mod apisim;
mod ccrypto;
mod client;
mod codec;
mod conn;
mod net;
mod pipe;
mod props;
mod rng;
mod runner;
mod services;
mod world;

use runner::Tier;

#[global_allocator]
static GLOBAL: alloc::Counting = alloc::Counting;

fn usage() -> ! {
    eprintln!("usage: sim check <Cxx> quick|thorough | sim replay <file> | sim selftest determinism [quick|thorough] | sim fingerprint <Cxx> <seed> <count>");
    std::process::exit(2);
}

fn tier_of(s: Option<&String>) -> Tier {
    match s.map(String::as_str) {
        Some("thorough") => Tier::Thorough,
        _ => match std::env::var("VERIF_TIER").as_deref() {
            Ok("thorough") if s.is_none() => Tier::Thorough,
            _ => Tier::Quick,
        },
    }
}

fn main() {
    alloc::install_panic_hook();
    // deterministic RSA key pair (hook H5), then force process-wide lazies before any paused runtime exists
    passage_protocol::verif::rng::set_key_seed(0x5eed_0f_5e_55_10_4e);
    let _ = passage_protocol::crypto::generate_keep_alive();
    let _ = passage_protocol::crypto::KEY_PAIR.1.clone();
    let _ = passage_protocol::crypto::ENCODED_PUB.len();
    // the application's configuration loader, run once per way of giving it a secret (sets environment variables: first thing)
    net::preload_secrets();
    let args: Vec<String> = std::env::args().collect();
    if args.get(1).map(String::as_str) == Some("loaded-secrets") {
        for (i, raw) in net::SECRET_SOURCES.iter().enumerate() {
            println!("{raw:?} -> env {:?} file {:?}", net::loaded_secret(0, i), net::loaded_secret(1, i));
        }
        return;
    }
    let checks = props::all();
    let code = std::panic::catch_unwind(std::panic::AssertUnwindSafe(|| run(&args, &checks)));
    let code = match code {
        Ok(c) => c,
        Err(_) => {
            println!("HARNESS-ERROR: the simulator itself panicked: {:?}", alloc::all_panics());
            2
        }
    };
    std::process::exit(code);
}

fn run(args: &[String], checks: &[Box<dyn runner::Erased>]) -> i32 {
    match args.get(1).map(String::as_str) {
        Some("check") => {
            let Some(id) = args.get(2) else { usage() };
            let Some(c) = checks.iter().find(|c| c.id() == id) else {
                eprintln!("unknown property {id}");
                std::process::exit(2);
            };
            runner::run_check(c.as_ref(), tier_of(args.get(3)))
        }
        Some("replay") => {
            let Some(path) = args.get(2) else { usage() };
            runner::replay_file(checks, path)
        }
        Some("fingerprint") => {
            let (Some(id), Some(seed), Some(count)) = (args.get(2), args.get(3), args.get(4)) else { usage() };
            let Some(c) = checks.iter().find(|c| c.id() == id) else { usage() };
            let (h, hashes) = runner::batch_fingerprint(c.as_ref(), seed.parse().unwrap_or(1), Tier::Quick, count.parse().unwrap_or(100));
            println!("{h:016x} {}", hashes.len());
            if args.get(5).map(String::as_str) == Some("--all") {
                for (i, x) in hashes {
                    println!("{i} {x:016x}");
                }
            }
            0
        }
        Some("scenario") => {
            let (Some(id), Some(seed), Some(index)) = (args.get(2), args.get(3), args.get(4)) else { usage() };
            let Some(c) = checks.iter().find(|c| c.id() == id) else { usage() };
            println!("{}", c.scenario(seed.parse().unwrap_or(1), index.parse().unwrap_or(0), tier_of(args.get(5))));
            0
        }
        Some("selftest") => selftest(checks, tier_of(args.get(3))),
        _ => usage(),
    }
}

/// Determinism: every family's batch fingerprint must be identical across separate processes and
/// worker counts. A difference is a harness error (exit 2), never a violation.
fn selftest(checks: &[Box<dyn runner::Erased>], tier: Tier) -> i32 {
    let exe = std::env::current_exe().expect("current exe");
    let per = match tier {
        Tier::Quick => 300u64,
        Tier::Thorough => 4000,
    };
    let seeds: &[u64] = match tier {
        Tier::Quick => &[1, 2],
        Tier::Thorough => &[1, 2, 3, 4, 5],
    };
    let mut bad = 0;
    let mut total = 0u64;
    for c in checks {
        for seed in seeds {
            let mut prints = vec![];
            for workers in ["1", "16", "5"] {
                let out = std::process::Command::new(&exe)
                    .args(["fingerprint", c.id(), &seed.to_string(), &per.to_string()])
                    .env("VERIF_WORKERS", workers)
                    .output()
                    .expect("spawn");
                prints.push(String::from_utf8_lossy(&out.stdout).trim().to_string());
            }
            total += per * 3;
            if prints.iter().any(|p| p != &prints[0]) || prints[0].is_empty() {
                println!("NONDETERMINISM family={} seed={} fingerprints={:?}", c.id(), seed, prints);
                bad += 1;
            } else {
                println!("deterministic family={} seed={} runs={} x3 processes fingerprint={}", c.id(), seed, per, prints[0]);
            }
        }
    }
    println!("selftest determinism: {total} runs compared, {bad} mismatching batches");
    if bad > 0 { 2 } else { 0 }
}
