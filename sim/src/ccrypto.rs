//! Independent cryptography for the simulated client and the oracles. Shares no code with /repo:
//! CFB8 is a shift register over the raw AES-128 block function, RSA PKCS#1 v1.5 encryption is
//! `m^e mod n` on `num-bigint` with a hand-written DER reader, HMAC-SHA256 is ipad/opad over `sha2`.

use crate::rng::Rng;
use aes::Aes128;
use aes::cipher::generic_array::GenericArray;
use aes::cipher::{BlockEncrypt, KeyInit};
use num_bigint::BigUint;
use sha2::{Digest, Sha256};

#[derive(Clone)]
pub struct Cfb8 {
    aes: Aes128,
    sr: [u8; 16],
}

impl Cfb8 {
    /// key = IV = `secret` (16 bytes)
    pub fn new(secret: &[u8]) -> Option<Self> {
        if secret.len() != 16 {
            return None;
        }
        let aes = Aes128::new(GenericArray::from_slice(secret));
        let mut sr = [0u8; 16];
        sr.copy_from_slice(secret);
        Some(Self { aes, sr })
    }

    fn keystream_byte(&self) -> u8 {
        let mut block = GenericArray::clone_from_slice(&self.sr);
        self.aes.encrypt_block(&mut block);
        block[0]
    }

    pub fn encrypt(&mut self, data: &mut [u8]) {
        for b in data.iter_mut() {
            let c = *b ^ self.keystream_byte();
            self.sr.copy_within(1.., 0);
            self.sr[15] = c;
            *b = c;
        }
    }

    pub fn decrypt(&mut self, data: &mut [u8]) {
        for b in data.iter_mut() {
            let c = *b;
            let p = c ^ self.keystream_byte();
            self.sr.copy_within(1.., 0);
            self.sr[15] = c;
            *b = p;
        }
    }
}

pub fn hmac_sha256(key: &[u8], msg: &[u8]) -> [u8; 32] {
    let mut k = [0u8; 64];
    if key.len() > 64 {
        let d = Sha256::digest(key);
        k[..32].copy_from_slice(&d);
    } else {
        k[..key.len()].copy_from_slice(key);
    }
    let mut ipad = [0x36u8; 64];
    let mut opad = [0x5cu8; 64];
    for i in 0..64 {
        ipad[i] ^= k[i];
        opad[i] ^= k[i];
    }
    let mut h = Sha256::new();
    h.update(ipad);
    h.update(msg);
    let inner = h.finalize();
    let mut h = Sha256::new();
    h.update(opad);
    h.update(inner);
    let out = h.finalize();
    let mut r = [0u8; 32];
    r.copy_from_slice(&out);
    r
}

/// tag || message
pub fn sign_cookie(secret: &[u8], msg: &[u8]) -> Vec<u8> {
    let mut v = hmac_sha256(secret, msg).to_vec();
    v.extend_from_slice(msg);
    v
}

#[derive(Clone, Debug)]
pub struct RsaPub {
    pub n: BigUint,
    pub e: BigUint,
    pub k: usize,
}

fn der_tlv(b: &[u8], pos: usize) -> Option<(u8, usize, usize)> {
    // returns (tag, content start, content end)
    let tag = *b.get(pos)?;
    let l0 = *b.get(pos + 1)? as usize;
    let (len, hdr) = if l0 < 0x80 {
        (l0, 2)
    } else {
        let nb = l0 & 0x7f;
        if nb == 0 || nb > 4 {
            return None;
        }
        let mut len = 0usize;
        for i in 0..nb {
            len = (len << 8) | (*b.get(pos + 2 + i)? as usize);
        }
        (len, 2 + nb)
    };
    let start = pos + hdr;
    let end = start.checked_add(len)?;
    if end > b.len() {
        return None;
    }
    Some((tag, start, end))
}

impl RsaPub {
    /// Parses an X.509 SubjectPublicKeyInfo (what the Encryption Request carries).
    pub fn from_spki_der(der: &[u8]) -> Option<Self> {
        let (t, s, _) = der_tlv(der, 0)?; // outer SEQUENCE
        if t != 0x30 {
            return None;
        }
        let (t, _, alg_end) = der_tlv(der, s)?; // AlgorithmIdentifier
        if t != 0x30 {
            return None;
        }
        let (t, bs, _) = der_tlv(der, alg_end)?; // BIT STRING
        if t != 0x03 {
            return None;
        }
        let inner = bs + 1; // skip unused-bits byte
        let (t, seq, _) = der_tlv(der, inner)?; // RSAPublicKey SEQUENCE
        if t != 0x30 {
            return None;
        }
        let (t, ns, ne) = der_tlv(der, seq)?;
        if t != 0x02 {
            return None;
        }
        let (t, es, ee) = der_tlv(der, ne)?;
        if t != 0x02 {
            return None;
        }
        let n = BigUint::from_bytes_be(&der[ns..ne]);
        let e = BigUint::from_bytes_be(&der[es..ee]);
        let k = ((n.bits() + 7) / 8) as usize;
        Some(Self { n, e, k })
    }

    /// A key nobody holds the private part of (for "encrypted to another key").
    pub fn bogus(rng: &mut Rng) -> Self {
        let mut nb = rng.bytes(128);
        nb[0] |= 0x80;
        nb[127] |= 1;
        Self {
            n: BigUint::from_bytes_be(&nb),
            e: BigUint::from(65537u32),
            k: 128,
        }
    }

    /// RSAES-PKCS1-v1_5 encryption; padding bytes come from the harness PRNG.
    pub fn encrypt(&self, rng: &mut Rng, msg: &[u8]) -> Option<Vec<u8>> {
        if msg.len() + 11 > self.k {
            return None;
        }
        let mut em = vec![0u8; self.k];
        em[1] = 2;
        let ps_len = self.k - 3 - msg.len();
        for i in 0..ps_len {
            let mut b = 0u8;
            while b == 0 {
                b = (rng.next_u64() & 0xff) as u8;
            }
            em[2 + i] = b;
        }
        em[2 + ps_len] = 0;
        em[3 + ps_len..].copy_from_slice(msg);
        let m = BigUint::from_bytes_be(&em);
        let c = m.modpow(&self.e, &self.n);
        let cb = c.to_bytes_be();
        let mut out = vec![0u8; self.k - cb.len()];
        out.extend_from_slice(&cb);
        Some(out)
    }
}
