//! `SimPipe`: the only transport the system under simulation sees. A duplex in-memory byte pipe
//! whose server end implements `AsyncRead + AsyncWrite` and whose behaviour in both directions is
//! dictated by a fault plan: segmentation, gated delivery (delay / absolute virtual time / after a
//! named event), spurious `Pending`, EOF or reset at any offset, partial write acceptance,
//! back-pressure, write errors, permanent stalls. All timing is tokio virtual time.

use crate::world::W;
use serde::{Deserialize, Serialize};
use std::collections::VecDeque;
use std::future::poll_fn;
use std::io;
use std::pin::Pin;
use std::sync::{Arc, Mutex};
use std::task::{Context, Poll, Waker};
use std::time::Duration;
use tokio::io::{AsyncRead, AsyncWrite, ReadBuf};
use tokio::time::Sleep;

#[derive(Clone, Debug, Serialize, Deserialize, PartialEq, Default)]
pub enum Gate {
    /// available as soon as the previous segment is
    #[default]
    Now,
    /// `ns` after the later of (enqueue time, the instant the previous segment became available)
    Delay { ns: u64 },
    /// not before virtual time `ns` since the start of the run
    Abs { ns: u64 },
    /// `ns` after the named event was signalled (waits for it)
    Event { name: String, ns: u64 },
}

#[derive(Clone, Debug, Serialize, Deserialize, PartialEq)]
pub enum EofKind {
    Clean,
    Reset,
}

/// One rule per `poll_write` call on the server end; when the plan is exhausted everything is accepted.
#[derive(Clone, Debug, Serialize, Deserialize, PartialEq)]
pub enum WRule {
    /// accept at most `max` (>= 1) bytes of this call
    Accept { max: usize },
    /// report `Pending` until `ns` have passed, then continue with the next rule
    Pend { ns: u64 },
    /// report `Pending` until `ns` after the named event
    PendEvent { name: String, ns: u64 },
    /// report `Pending` once and wake immediately
    Spurious,
    /// fail this and every later write with BrokenPipe
    Broken,
    /// never accept anything again (peer stopped reading, buffers full)
    Stall,
    /// accept everything until the client has hung up; from then on fail with BrokenPipe (the hang-up is reported by
    /// the next write although the end of stream has not been read yet)
    BrokenOncePeerClosed,
}

#[derive(Clone, Debug)]
enum SegKind {
    Data,
    Eof(EofKind),
}

#[derive(Clone, Debug)]
struct Seg {
    bytes: Vec<u8>,
    pos: usize,
    ready: Option<u64>,
    gate: Gate,
    spurious: u8,
    enq_ns: u64,
    kind: SegKind,
    /// a read that finished the previous segment may continue into this one (TCP coalescing of
    /// back-to-back frames); false for boundaries a `Cut` asked for
    join_prev: bool,
}

#[derive(Default)]
pub struct PipeState {
    pub label: String,
    inq: VecDeque<Seg>,
    last_ready_ns: u64,
    /// (stream offset at which the segment ends, virtual ns at which it became available to the server)
    pub avail: Vec<(u64, u64)>,
    avail_off: u64,
    /// a server write is currently blocked or was only partially accepted
    pub write_blocked: bool,
    read_waker: Option<Waker>,
    in_closed: Option<EofKind>,
    /// the client has closed its end (whether or not the end of stream has been delivered to the reader)
    peer_closed: bool,
    /// reads the server issued after EOF / reset had been delivered
    pub reads_after_eof: u64,
    /// bytes the server end has consumed so far
    pub read_total: u64,
    /// stream offsets at which client frames end (registered by the client)
    pub frame_ends: Vec<u64>,
    /// bytes the client has handed to the pipe so far
    pub sent_total: u64,

    /// every chunk the transport accepted from the server: (virtual ns, bytes)
    pub out: Vec<(u64, Vec<u8>)>,
    out_taken: usize,
    wplan: VecDeque<WRule>,
    client_waker: Option<Waker>,
    pub shutdown_ns: Option<u64>,
    pub dropped_ns: Option<u64>,
    pub write_calls: u64,
    pub partial_accepts: u64,
    write_attempt_ns: Option<u64>,
    /// total virtual time server writes spent blocked by the plan
    pub write_blocked_total_ns: u64,
}

impl PipeState {
    /// true when the server has consumed part of a client frame but not all of it
    pub fn mid_frame(&self) -> bool {
        if self.read_total == 0 {
            return false;
        }
        let mut start = 0u64;
        for end in &self.frame_ends {
            if self.read_total > start && self.read_total < *end {
                return true;
            }
            if self.read_total <= start {
                return false;
            }
            start = *end;
        }
        false
    }

    /// Availability times of the segments the server never got to (pure function of the plan and the signals).
    pub fn resolve_rest(&mut self, signals: &std::collections::BTreeMap<String, u64>) {
        let mut last = self.last_ready_ns;
        let mut off = self.avail_off;
        for seg in self.inq.iter() {
            if let SegKind::Eof(_) = seg.kind {
                continue;
            }
            let r = match seg.ready {
                Some(r) => {
                    last = last.max(r);
                    continue;
                }
                None => {
                    let base = seg.enq_ns.max(last);
                    ms_ceil(match &seg.gate {
                        Gate::Now => base,
                        Gate::Delay { ns } => base.saturating_add(*ns),
                        Gate::Abs { ns } => base.max(*ns),
                        Gate::Event { name, ns } => match signals.get(name) {
                            Some(te) => base.max(*te).saturating_add(*ns),
                            None => u64::MAX,
                        },
                    })
                }
            };
            last = r;
            off += seg.bytes.len() as u64;
            self.avail.push((off, r));
        }
    }

    /// virtual ns at which the byte ending at stream offset `end` was available to the server
    pub fn avail_at(avail: &[(u64, u64)], end: u64) -> Option<u64> {
        avail.iter().find(|(o, _)| *o >= end).map(|(_, t)| *t)
    }

    pub fn server_closed(&self) -> bool {
        self.shutdown_ns.is_some() || self.dropped_ns.is_some()
    }

    pub fn out_bytes(&self) -> Vec<u8> {
        let mut v = Vec::new();
        for (_, c) in &self.out {
            v.extend_from_slice(c);
        }
        v
    }
}

pub type St = Arc<Mutex<PipeState>>;

pub struct ServerEnd {
    st: St,
    world: W,
    rsleep: Option<Pin<Box<Sleep>>>,
    wsleep: Option<Pin<Box<Sleep>>>,
    wpend_counted: bool,
}

pub struct ClientEnd {
    pub st: St,
    pub world: W,
}

pub fn pipe(world: &W, label: &str, wplan: Vec<WRule>) -> (ServerEnd, ClientEnd) {
    let st = Arc::new(Mutex::new(PipeState {
        label: label.to_string(),
        wplan: wplan.into(),
        ..Default::default()
    }));
    (
        ServerEnd {
            st: st.clone(),
            world: world.clone(),
            rsleep: None,
            wsleep: None,
            wpend_counted: false,
        },
        ClientEnd {
            st,
            world: world.clone(),
        },
    )
}

impl ClientEnd {
    /// Hands `bytes` to the pipe as one segment.
    pub fn send_seg(&self, bytes: Vec<u8>, gate: Gate, spurious: u8) {
        self.send_seg_join(bytes, gate, spurious, false);
    }

    /// Like `send_seg`; with `join_prev` a single server read may span the previous segment and this one.
    pub fn send_seg_join(&self, bytes: Vec<u8>, gate: Gate, spurious: u8, join_prev: bool) {
        let now = self.world.lock().unwrap().now_ns();
        let mut st = self.st.lock().unwrap();
        st.sent_total += bytes.len() as u64;
        st.inq.push_back(Seg {
            bytes,
            pos: 0,
            ready: None,
            gate,
            spurious,
            enq_ns: now,
            kind: SegKind::Data,
            join_prev,
        });
        if let Some(w) = st.read_waker.take() {
            w.wake();
        }
    }

    pub fn mark_frame_end(&self) {
        let mut st = self.st.lock().unwrap();
        let t = st.sent_total;
        st.frame_ends.push(t);
    }

    pub fn sent_total(&self) -> u64 {
        self.st.lock().unwrap().sent_total
    }

    pub fn close(&self, kind: EofKind, gate: Gate) {
        let now = self.world.lock().unwrap().now_ns();
        let mut st = self.st.lock().unwrap();
        st.peer_closed = true;
        st.inq.push_back(Seg {
            bytes: Vec::new(),
            pos: 0,
            ready: None,
            gate,
            spurious: 0,
            enq_ns: now,
            kind: SegKind::Eof(kind),
            join_prev: false,
        });
        if let Some(w) = st.read_waker.take() {
            w.wake();
        }
    }

    /// Next chunk the server wrote, or `None` once the server end is shut down / dropped and
    /// everything was taken.
    pub async fn recv(&self) -> Option<(u64, Vec<u8>)> {
        poll_fn(|cx| {
            let mut st = self.st.lock().unwrap();
            if st.out_taken < st.out.len() {
                let c = st.out[st.out_taken].clone();
                st.out_taken += 1;
                return Poll::Ready(Some(c));
            }
            if st.server_closed() {
                return Poll::Ready(None);
            }
            st.client_waker = Some(cx.waker().clone());
            Poll::Pending
        })
        .await
    }
}

/// tokio's timers fire on millisecond boundaries; availability times are rounded up accordingly so
/// that what the oracles read is what actually happens
fn ms_ceil(ns: u64) -> u64 {
    if ns == u64::MAX {
        return ns;
    }
    ns.div_ceil(1_000_000).saturating_mul(1_000_000)
}

fn resolve(gate: &Gate, base: u64, world: &W, waker: &Waker) -> Option<u64> {
    resolve_raw(gate, base, world, waker).map(ms_ceil)
}

fn resolve_raw(gate: &Gate, base: u64, world: &W, waker: &Waker) -> Option<u64> {
    match gate {
        Gate::Now => Some(base),
        Gate::Delay { ns } => Some(base.saturating_add(*ns)),
        Gate::Abs { ns } => Some(base.max(*ns)),
        Gate::Event { name, ns } => {
            let mut w = world.lock().unwrap();
            match w.signalled(name) {
                Some(te) => Some(base.max(te).saturating_add(*ns)),
                None => {
                    w.wait_signal(waker);
                    None
                }
            }
        }
    }
}

impl AsyncRead for ServerEnd {
    fn poll_read(
        self: Pin<&mut Self>,
        cx: &mut Context<'_>,
        buf: &mut ReadBuf<'_>,
    ) -> Poll<io::Result<()>> {
        let this = self.get_mut();
        loop {
            let now = this.world.lock().unwrap().now_ns();
            let mut st = this.st.lock().unwrap();
            if let Some(kind) = st.in_closed.clone() {
                st.reads_after_eof += 1;
                if st.reads_after_eof > 20_000 {
                    // a handler that keeps reading after the end of the stream: park it so that the run
                    // can end and the oracle can judge it (the count is part of the outcome)
                    if st.reads_after_eof == 20_001 {
                        this.world.lock().unwrap().fault("read_storm_after_eof_parked");
                    }
                    return Poll::Pending;
                }
                return match kind {
                    EofKind::Clean => Poll::Ready(Ok(())),
                    EofKind::Reset => {
                        Poll::Ready(Err(io::Error::from(io::ErrorKind::ConnectionReset)))
                    }
                };
            }
            let last = st.last_ready_ns;
            let Some(head) = st.inq.front_mut() else {
                st.read_waker = Some(cx.waker().clone());
                return Poll::Pending;
            };
            let ready = match head.ready {
                Some(r) => r,
                None => {
                    let base = head.enq_ns.max(last);
                    let Some(r) = resolve(&head.gate, base, &this.world, cx.waker()) else {
                        st.read_waker = Some(cx.waker().clone());
                        return Poll::Pending;
                    };
                    head.ready = Some(r);
                    let len = head.bytes.len() as u64;
                    st.last_ready_ns = r;
                    st.avail_off += len;
                    let off = st.avail_off;
                    st.avail.push((off, r));
                    r
                }
            };
            let head = st.inq.front_mut().unwrap();
            if ready > now {
                st.read_waker = Some(cx.waker().clone());
                drop(st);
                let mut s = Box::pin(tokio::time::sleep(Duration::from_nanos(ready - now)));
                if s.as_mut().poll(cx).is_pending() {
                    this.rsleep = Some(s);
                    return Poll::Pending;
                }
                continue;
            }
            this.rsleep = None;
            if head.spurious > 0 {
                head.spurious -= 1;
                this.world.lock().unwrap().fault("read_spurious_pending");
                cx.waker().wake_by_ref();
                return Poll::Pending;
            }
            match head.kind.clone() {
                SegKind::Data => {
                    let rem = head.bytes.len() - head.pos;
                    if rem == 0 {
                        st.inq.pop_front();
                        continue;
                    }
                    let n = rem.min(buf.remaining());
                    if n == 0 {
                        return Poll::Ready(Ok(()));
                    }
                    buf.put_slice(&head.bytes[head.pos..head.pos + n]);
                    head.pos += n;
                    let done = head.pos == head.bytes.len();
                    if done {
                        st.inq.pop_front();
                    }
                    st.read_total += n as u64;
                    // coalescing: the same read continues into following segments that are joinable
                    // and already available (no gate to wait for, no spurious Pending owed)
                    let mut joined = false;
                    while done && buf.remaining() > 0 {
                        let last = st.last_ready_ns;
                        let Some(next) = st.inq.front_mut() else { break };
                        if !next.join_prev || next.spurious > 0 || !matches!(next.kind, SegKind::Data) {
                            break;
                        }
                        let r = match next.ready {
                            Some(r) => r,
                            None => {
                                let base = next.enq_ns.max(last);
                                match &next.gate {
                                    Gate::Now => ms_ceil(base),
                                    _ => break,
                                }
                            }
                        };
                        if r > now {
                            break;
                        }
                        let first_touch = next.ready.is_none();
                        next.ready = Some(r);
                        let rem = next.bytes.len() - next.pos;
                        let k = rem.min(buf.remaining());
                        buf.put_slice(&next.bytes[next.pos..next.pos + k]);
                        next.pos += k;
                        let len = next.bytes.len() as u64;
                        let fin = next.pos == next.bytes.len();
                        if first_touch {
                            st.last_ready_ns = r;
                            st.avail_off += len;
                            let off = st.avail_off;
                            st.avail.push((off, r));
                        }
                        st.read_total += k as u64;
                        joined = true;
                        if fin {
                            st.inq.pop_front();
                        } else {
                            break;
                        }
                    }
                    if joined {
                        this.world.lock().unwrap().fault("c2s_frames_coalesced_in_one_read");
                    }
                    return Poll::Ready(Ok(()));
                }
                SegKind::Eof(kind) => {
                    st.inq.pop_front();
                    st.in_closed = Some(kind.clone());
                    let mut w = this.world.lock().unwrap();
                    w.fault(match kind {
                        EofKind::Clean => "client_eof_delivered",
                        EofKind::Reset => "client_reset_delivered",
                    });
                    if st.mid_frame() {
                        w.fault("eof_mid_frame");
                    }
                    let label = st.label.clone();
                    w.ev(&label, "eof_delivered", serde_json::json!({}));
                    drop(w);
                    return match kind {
                        EofKind::Clean => Poll::Ready(Ok(())),
                        EofKind::Reset => {
                            Poll::Ready(Err(io::Error::from(io::ErrorKind::ConnectionReset)))
                        }
                    };
                }
            }
        }
    }
}

impl AsyncWrite for ServerEnd {
    fn poll_write(
        self: Pin<&mut Self>,
        cx: &mut Context<'_>,
        buf: &[u8],
    ) -> Poll<io::Result<usize>> {
        let this = self.get_mut();
        loop {
            let now = this.world.lock().unwrap().now_ns();
            let mut st = this.st.lock().unwrap();
            st.write_calls += 1;
            if st.write_attempt_ns.is_none() {
                st.write_attempt_ns = Some(now);
            }
            if matches!(st.in_closed, Some(EofKind::Reset)) {
                return Poll::Ready(Err(io::Error::from(io::ErrorKind::BrokenPipe)));
            }
            let mut accept = buf.len();
            match st.wplan.front().cloned() {
                None => {}
                Some(WRule::Accept { max }) => {
                    st.wplan.pop_front();
                    let max = max.max(1);
                    if max < buf.len() {
                        accept = max;
                        st.partial_accepts += 1;
                        this.world.lock().unwrap().fault("write_partial_accept");
                    }
                }
                Some(WRule::Pend { ns }) => {
                    st.write_blocked = true;
                    drop(st);
                    if this.wsleep.is_none() {
                        this.world.lock().unwrap().fault("write_pending_delay");
                        this.wsleep = Some(Box::pin(tokio::time::sleep(Duration::from_nanos(ns))));
                    }
                    let s = this.wsleep.as_mut().unwrap();
                    if s.as_mut().poll(cx).is_pending() {
                        return Poll::Pending;
                    }
                    this.wsleep = None;
                    let mut st = this.st.lock().unwrap();
                    st.wplan.pop_front();
                    // what counts is how long the plan held the write back, not how long the server took to retry
                    st.write_blocked_total_ns += ns;
                    continue;
                }
                Some(WRule::PendEvent { name, ns }) => {
                    let gate = Gate::Event { name, ns };
                    st.write_blocked = true;
                    if !this.wpend_counted {
                        this.wpend_counted = true;
                        this.world.lock().unwrap().fault("write_pending_event");
                    }
                    let Some(ready) = resolve(&gate, 0, &this.world, cx.waker()) else {
                        return Poll::Pending;
                    };
                    if ready > now {
                        drop(st);
                        let mut s = Box::pin(tokio::time::sleep(Duration::from_nanos(ready - now)));
                        if s.as_mut().poll(cx).is_pending() {
                            this.wsleep = Some(s);
                            return Poll::Pending;
                        }
                        continue;
                    }
                    this.wsleep = None;
                    this.wpend_counted = false;
                    st.wplan.pop_front();
                    let began = st.write_attempt_ns.unwrap_or(ready);
                    st.write_blocked_total_ns += ready.saturating_sub(began);
                    continue;
                }
                Some(WRule::Spurious) => {
                    st.wplan.pop_front();
                    this.world.lock().unwrap().fault("write_spurious_pending");
                    cx.waker().wake_by_ref();
                    return Poll::Pending;
                }
                Some(WRule::Broken) => {
                    this.world.lock().unwrap().fault("write_broken_pipe");
                    return Poll::Ready(Err(io::Error::from(io::ErrorKind::BrokenPipe)));
                }
                Some(WRule::BrokenOncePeerClosed) => {
                    if st.peer_closed {
                        this.world.lock().unwrap().fault("write_after_the_peer_hung_up");
                        return Poll::Ready(Err(io::Error::from(io::ErrorKind::BrokenPipe)));
                    }
                }
                Some(WRule::Stall) => {
                    st.write_blocked = true;
                    this.world.lock().unwrap().fault("write_stall");
                    return Poll::Pending;
                }
            }
            if accept == 0 {
                return Poll::Ready(Ok(0));
            }
            st.write_blocked = accept < buf.len();
            st.write_attempt_ns = None;
            if st.mid_frame() {
                this.world.lock().unwrap().probe("server_write_while_frame_half_read");
            }
            st.out.push((now, buf[..accept].to_vec()));
            if let Some(w) = st.client_waker.take() {
                w.wake();
            }
            return Poll::Ready(Ok(accept));
        }
    }

    fn poll_flush(self: Pin<&mut Self>, _cx: &mut Context<'_>) -> Poll<io::Result<()>> {
        Poll::Ready(Ok(()))
    }

    fn poll_shutdown(self: Pin<&mut Self>, _cx: &mut Context<'_>) -> Poll<io::Result<()>> {
        let this = self.get_mut();
        let now = this.world.lock().unwrap().now_ns();
        let mut st = this.st.lock().unwrap();
        if st.shutdown_ns.is_none() {
            st.shutdown_ns = Some(now);
        }
        if let Some(w) = st.client_waker.take() {
            w.wake();
        }
        Poll::Ready(Ok(()))
    }
}

impl Drop for ServerEnd {
    fn drop(&mut self) {
        let now = self.world.lock().map(|w| w.now_ns()).unwrap_or(0);
        if let Ok(mut st) = self.st.lock() {
            if st.dropped_ns.is_none() {
                st.dropped_ns = Some(now);
            }
            if let Some(w) = st.client_waker.take() {
                w.wake();
            }
        }
    }
}
