//! Conn-sim: one real `Connection` over a `SimPipe` with scripted services and the simulated
//! client, on a fresh current-thread tokio runtime with paused clock and seeded `select!`.

use crate::alloc;
use crate::client::{ClientSpec, ClientView, run_client};
use crate::pipe::{WRule, pipe};
use crate::rng::Fnv;
use crate::services::{
    RecLocalization, Services, SimAuth, SimDiscovery, SimStatus, SimStrategy, shared,
};
use crate::world::{Event, W, hexopt, new_world};
use passage_protocol::connection::Connection;
use serde::{Deserialize, Serialize};
use serde_json::json;
use std::collections::BTreeMap;
use std::net::SocketAddr;
use std::sync::Arc;
use std::time::Duration;
use tokio::io::AsyncWriteExt;
use tokio::time::Instant;

#[derive(Clone, Debug, Serialize, Deserialize, PartialEq)]
pub struct ConnCfg {
    #[serde(with = "hexopt")]
    pub secret: Option<Vec<u8>>,
    pub expiry: Option<u64>,
    pub max_frame: Option<i32>,
    pub client_addr: String,
}

impl Default for ConnCfg {
    fn default() -> Self {
        Self {
            secret: None,
            expiry: None,
            max_frame: None,
            client_addr: "198.51.100.7:40000".into(),
        }
    }
}

#[derive(Clone, Debug, Serialize, Deserialize, PartialEq)]
pub struct Wall {
    pub base_s: u64,
    /// (virtual ns since run start, seconds added to the wall clock from then on; may be negative)
    #[serde(default)]
    pub jumps: Vec<(u64, i64)>,
}

impl Default for Wall {
    fn default() -> Self {
        Self {
            base_s: 1_800_000_000,
            jumps: vec![],
        }
    }
}

impl Wall {
    pub fn at(&self, elapsed_ns: u64) -> u64 {
        let mut s = self.base_s as i128 + (elapsed_ns / 1_000_000_000) as i128;
        for (at, d) in &self.jumps {
            if elapsed_ns >= *at {
                s += *d as i128;
            }
        }
        s.max(0) as u64
    }
}

pub fn install_wall(world: &W, wall: &Wall) {
    let t0: Instant = world.lock().unwrap().t0;
    let wall = wall.clone();
    passage_protocol::verif::clock::set_wall(Some(Box::new(move || {
        let el = Instant::now().saturating_duration_since(t0).as_nanos() as u64;
        let sub = el % 1_000_000_000;
        std::time::UNIX_EPOCH + Duration::from_secs(wall.at(el)) + Duration::from_nanos(sub)
    })));
}

#[derive(Clone, Debug, Serialize, Deserialize, PartialEq)]
pub struct ConnScenario {
    pub seed: u64,
    pub cfg: ConnCfg,
    #[serde(default)]
    pub wall: Wall,
    pub services: Services,
    pub client: ClientSpec,
    #[serde(default)]
    pub wplan: Vec<WRule>,
    /// virtual-time cap of the run
    pub cap_ns: u64,
    /// connections handled earlier by the same process and thread (whatever the code under simulation
    /// keeps between connections - a cache, a static, a counter - is primed by them)
    #[serde(default, skip_serializing_if = "Vec::is_empty")]
    pub prelude: Vec<ConnScenario>,
    /// C04 only: run the scenario `rounds x per_round` times with fresh client-chosen values each time and compare the
    /// live heap of the thread between rounds
    #[serde(default, skip_serializing_if = "Option::is_none")]
    pub growth: Option<Growth>,
}

#[derive(Clone, Debug, Serialize, Deserialize, PartialEq)]
pub struct Growth {
    pub per_round: u32,
    /// bytes of padding in the client-chosen host name (the handshake frame has to stay under the frame limit)
    pub host_len: u32,
    /// which client-chosen values change from connection to connection: "host", "name", "locale", "brand", "uuid", "addr"
    pub vary: Vec<String>,
}

#[derive(Clone, Debug, Serialize, Deserialize, PartialEq)]
pub struct PipeSummary {
    pub read_total: u64,
    pub sent_total: u64,
    pub reads_after_eof: u64,
    pub shutdown_ns: Option<u64>,
    pub write_calls: u64,
    pub partial_accepts: u64,
    pub write_blocked_total_ns: u64,
    pub frame_ends: Vec<u64>,
    pub avail: Vec<(u64, u64)>,
    #[serde(skip)]
    pub out: Vec<(u64, Vec<u8>)>,
}

#[derive(Clone, Debug, Serialize, Deserialize, PartialEq)]
pub struct ConnOutcome {
    /// "Ok", the error variant name, "Hung" (still running at the cap) or "Panic"
    pub result: String,
    pub result_text: String,
    pub done_ns: Option<u64>,
    pub log: Vec<Event>,
    pub view: ClientView,
    pub pipe: PipeSummary,
    pub faults: BTreeMap<String, u64>,
    pub probes: BTreeMap<String, u64>,
    pub signals: BTreeMap<String, u64>,
    pub panics: Vec<String>,
    pub max_alloc: usize,
    pub end_ns: u64,
    /// back-end calls still being waited for after the handler has returned (or was cancelled)
    #[serde(default)]
    pub calls_in_flight_at_end: i64,
}

impl ConnOutcome {
    pub fn trace_hash(&self) -> u64 {
        let mut h = Fnv::default();
        for e in &self.log {
            h.write_str(&e.actor);
            h.write_str(&e.kind);
            if let Some(k) = e.detail.get("kind").and_then(|k| k.as_str()) {
                h.write_str(k);
            }
            // what the services answered is part of the interleaving's identity
            if e.kind == "done" && e.actor.starts_with("svc:") {
                if let Some(r) = e.detail.get("result") {
                    h.write_str(&r.to_string());
                }
                if let Some(r) = e.detail.get("ok") {
                    h.write_str(&r.to_string());
                }
            }
        }
        for p in &self.view.packets {
            match p.kind.as_str() {
                "EncryptionRequest" => h.write_str(&p.fields["should_authenticate"].to_string()),
                "Disconnect" | "Transfer" => h.write_str(&p.fields.to_string()),
                _ => {}
            }
        }
        h.write_str(&self.result);
        h.0
    }

    /// order- and time-sensitive hash used by the determinism self-test
    pub fn full_hash(&self) -> u64 {
        let mut h = Fnv::default();
        for e in &self.log {
            h.write_u64(e.t_ns);
            h.write_str(&e.actor);
            h.write_str(&e.kind);
            h.write_str(&e.detail.to_string());
        }
        for p in &self.view.packets {
            h.write_u64(p.t_ns);
            h.write_str(&p.kind);
            h.write_u64(p.len as u64);
        }
        h.write_str(&self.result);
        h.write_u64(self.done_ns.unwrap_or(u64::MAX));
        h.write_u64(self.pipe.read_total);
        for (k, v) in &self.faults {
            h.write_str(k);
            h.write_u64(*v);
        }
        h.0
    }

    pub fn events<'a>(&'a self, actor: &'a str, kind: &'a str) -> impl Iterator<Item = &'a Event> {
        self.log
            .iter()
            .filter(move |e| e.actor == actor && e.kind == kind)
    }
}

pub fn variant_name(dbg: &str) -> String {
    dbg.split(|c: char| !(c.is_alphanumeric() || c == '_'))
        .next()
        .unwrap_or("")
        .to_string()
}

/// Seeds every per-thread source of randomness the code under simulation draws from.
pub fn seed_thread(seed: u64) {
    fastrand::seed(seed);
    passage_protocol::verif::rng::seed_tokens(Some(seed ^ 0x7043_4b45_4e53));
}

pub fn new_runtime(seed: u64) -> tokio::runtime::Runtime {
    seed_thread(seed);
    tokio::runtime::Builder::new_current_thread()
        .enable_time()
        .start_paused(true)
        .rng_seed(tokio::runtime::RngSeed::from_bytes(&seed.to_le_bytes()))
        .build()
        .expect("runtime")
}

/// Runs the scenario's earlier connections (in order, same thread) and returns their outcomes.
pub fn run_prelude(sc: &ConnScenario) -> Vec<ConnOutcome> {
    sc.prelude.iter().map(run_conn).collect()
}

/// Runs the earlier connections first (their outcomes are not judged), then the scenario itself.
pub fn run_conn_after_prelude(sc: &ConnScenario) -> ConnOutcome {
    for p in sc.prelude.iter().filter(|p| p.prelude.is_empty()) {
        let _ = run_conn(p);
    }
    run_conn(sc)
}

thread_local! {
    static PERSIST: std::cell::RefCell<Option<crate::services::Persistent>> = const { std::cell::RefCell::new(None) };
}

/// While the guard lives, every `run_conn` of this thread uses the same filter-chain and localization objects.
pub struct PersistGuard;

pub fn persist_adapters(s: &Services) -> PersistGuard {
    PERSIST.with(|p| *p.borrow_mut() = Some(crate::services::Persistent::new(s)));
    PersistGuard
}

impl Drop for PersistGuard {
    fn drop(&mut self) {
        let _ = PERSIST.try_with(|p| p.borrow_mut().take());
    }
}

pub fn run_conn(sc: &ConnScenario) -> ConnOutcome {
    let rt = new_runtime(sc.seed);
    alloc::reset_alloc();
    let _ = alloc::take_panics();
    let out = rt.block_on(run_conn_async(sc));
    passage_protocol::verif::clock::set_wall(None);
    drop(rt);
    if std::env::var("VERIF_DUMP").is_ok() {
        eprintln!("--- run result={} {} done={:?} end={}", out.result, out.result_text, out.done_ns, out.end_ns);
        for e in &out.log {
            let d = e.detail.to_string();
            eprintln!("  {:>4} {:>15} {:<16} {:<8} {}", e.seq, e.t_ns, e.actor, e.kind, &d[..d.len().min(160)]);
        }
        eprintln!("  sent: {:?}", out.view.sent.iter().map(|s| (s.t_ns, s.kind.clone(), s.start, s.end)).collect::<Vec<_>>());
        eprintln!("  undecodable={:?} partial={} faults={:?} probes={:?} avail={:?}", out.view.undecodable, out.view.partial_at_eof, out.faults, out.probes, out.pipe.avail);
    }
    out
}

async fn run_conn_async(sc: &ConnScenario) -> ConnOutcome {
    let world = new_world();
    install_wall(&world, &sc.wall);
    let sh = shared(&world);
    let (mut server_end, client_end) = pipe(&world, "c0", sc.wplan.clone());
    sh.pipes.lock().unwrap().push(client_end.st.clone());
    let status = Arc::new(SimStatus::new(&sh, sc.services.status.clone()));
    let auth = Arc::new(SimAuth::new(&sh, sc.services.auth.clone()));
    let disc = Arc::new(SimDiscovery::new(&sh, sc.services.discovery.clone()));
    let strat = Arc::new(SimStrategy::new(&sh, sc.services.strategy.clone()));
    // the adapter objects that hold real code: fresh per connection, or the ones a history of connections shares
    let (filt, loc) = PERSIST.with(|p| match &*p.borrow() {
        Some(p) => {
            p.rebind(&sh);
            (p.filt.clone(), p.loc.clone())
        }
        None => (Arc::new(crate::services::filter_chain(&sh, &sc.services)), Arc::new(RecLocalization::new(&sh, &sc.services.localization))),
    });
    let addr: SocketAddr = sc.cfg.client_addr.parse().expect("client addr");
    let cfg = sc.cfg.clone();
    let w2 = world.clone();
    let mut server = tokio::spawn(async move {
        let r = {
            let mut conn = Connection::new(&mut server_end, status, disc, filt, strat, auth, loc)
                .with_client_address(addr)
                .with_auth_secret(cfg.secret.clone());
            if let Some(e) = cfg.expiry {
                conn = conn.with_auth_cookie_expiry(e);
            }
            if let Some(m) = cfg.max_frame {
                conn = conn.with_max_packet_length(m);
            }
            alloc::tracked(conn.listen()).await
        };
        let (name, text) = match &r {
            Ok(()) => ("Ok".to_string(), String::new()),
            Err(e) => (variant_name(&format!("{e:?}")), e.to_string()),
        };
        w2.lock()
            .unwrap()
            .ev("server", "done", json!({"result": name, "text": text}));
        // what the listener does after listen() returns
        let _ = server_end.shutdown().await;
        (name, text)
    });
    let view = run_client(&sc.client, &client_end, sc.cap_ns).await;
    let joined = tokio::time::timeout(Duration::from_nanos(1), &mut server).await;
    let (result, result_text) = match joined {
        Ok(Ok((n, t))) => (n, t),
        Ok(Err(e)) => (
            if e.is_panic() { "Panic" } else { "Cancelled" }.to_string(),
            e.to_string(),
        ),
        Err(_) => {
            server.abort();
            let _ = (&mut server).await;
            ("Hung".to_string(), String::new())
        }
    };
    let w = world.lock().unwrap();
    let done_ns = w
        .log
        .iter()
        .find(|e| e.actor == "server" && e.kind == "done")
        .map(|e| e.t_ns);
    let mut st = client_end.st.lock().unwrap();
    st.resolve_rest(&w.signals);
    ConnOutcome {
        result,
        result_text,
        done_ns,
        log: w.log.clone(),
        view,
        pipe: PipeSummary {
            read_total: st.read_total,
            sent_total: st.sent_total,
            reads_after_eof: st.reads_after_eof,
            shutdown_ns: st.shutdown_ns,
            write_calls: st.write_calls,
            partial_accepts: st.partial_accepts,
            write_blocked_total_ns: st.write_blocked_total_ns,
            frame_ends: st.frame_ends.clone(),
            avail: st.avail.clone(),
            out: st.out.clone(),
        },
        faults: w.faults.clone(),
        probes: w.probes.clone(),
        signals: w.signals.clone(),
        panics: alloc::take_panics(),
        max_alloc: alloc::max_alloc(),
        end_ns: w.now_ns(),
        calls_in_flight_at_end: sh.in_flight.load(std::sync::atomic::Ordering::SeqCst),
    }
}
