//! Counting global allocator + panic capture. The allocator records the largest single request
//! made on this thread while a `Tracked` future (the connection handler) is being polled, so the
//! simulator's own buffers are not counted.

use std::alloc::{GlobalAlloc, Layout, System};
use std::cell::{Cell, RefCell};
use std::future::Future;
use std::pin::Pin;
use std::task::{Context, Poll};

static ALL_PANICS: std::sync::Mutex<Vec<String>> = std::sync::Mutex::new(Vec::new());

pub fn all_panics() -> Vec<String> {
    ALL_PANICS.lock().map(|v| v.iter().rev().take(3).cloned().collect()).unwrap_or_default()
}

thread_local! {
    static TRACK: Cell<bool> = const { Cell::new(false) };
    static MAX_REQ: Cell<usize> = const { Cell::new(0) };
    static TOTAL_REQ: Cell<usize> = const { Cell::new(0) };
    /// bytes allocated minus bytes freed by this thread (all code, tracked or not)
    static LIVE: Cell<isize> = const { Cell::new(0) };
    static PANICS: RefCell<Vec<String>> = const { RefCell::new(Vec::new()) };
}

pub struct Counting;

unsafe impl GlobalAlloc for Counting {
    unsafe fn alloc(&self, l: Layout) -> *mut u8 {
        note(l.size());
        live(l.size() as isize);
        unsafe { System.alloc(l) }
    }
    unsafe fn alloc_zeroed(&self, l: Layout) -> *mut u8 {
        note(l.size());
        live(l.size() as isize);
        unsafe { System.alloc_zeroed(l) }
    }
    unsafe fn dealloc(&self, p: *mut u8, l: Layout) {
        live(-(l.size() as isize));
        unsafe { System.dealloc(p, l) }
    }
    unsafe fn realloc(&self, p: *mut u8, l: Layout, n: usize) -> *mut u8 {
        note(n);
        live(n as isize - l.size() as isize);
        unsafe { System.realloc(p, l, n) }
    }
}

#[inline]
fn note(size: usize) {
    let _ = TRACK.try_with(|t| {
        if t.get() {
            let _ = MAX_REQ.try_with(|m| {
                if size > m.get() {
                    m.set(size);
                }
            });
            let _ = TOTAL_REQ.try_with(|m| m.set(m.get().saturating_add(size)));
        }
    });
}

#[inline]
fn live(delta: isize) {
    let _ = LIVE.try_with(|m| m.set(m.get().wrapping_add(delta)));
}

/// Bytes this thread has allocated and not freed (meaningful as a difference between two quiescent points of one
/// thread that frees what it allocates).
pub fn live_bytes() -> isize {
    LIVE.with(|m| m.get())
}

pub fn reset_alloc() {
    MAX_REQ.with(|m| m.set(0));
    TOTAL_REQ.with(|m| m.set(0));
}

pub fn max_alloc() -> usize {
    MAX_REQ.with(|m| m.get())
}

pub fn total_alloc() -> usize {
    TOTAL_REQ.with(|m| m.get())
}

/// Marks allocations made while the inner future is polled as belonging to the code under test.
pub struct Tracked<F>(pub Pin<Box<F>>);

impl<F: Future> Future for Tracked<F> {
    type Output = F::Output;
    fn poll(mut self: Pin<&mut Self>, cx: &mut Context<'_>) -> Poll<F::Output> {
        struct Restore(bool);
        impl Drop for Restore {
            fn drop(&mut self) {
                let _ = TRACK.try_with(|t| t.set(self.0));
            }
        }
        let _g = Restore(TRACK.with(|t| t.replace(true)));
        self.0.as_mut().poll(cx)
    }
}

pub fn tracked<F: Future>(f: F) -> Tracked<F> {
    Tracked(Box::pin(f))
}

pub fn install_panic_hook() {
    std::panic::set_hook(Box::new(|info| {
        // a panic inside a tracked poll must not leave tracking on for harness code
        let _ = TRACK.try_with(|t| t.set(false));
        let msg = format!("{info}");
        // a back-end stub that is scripted to panic is a fault the simulator injects, not a finding
        if msg.contains(crate::services::INJECTED_PANIC) {
            return;
        }
        if let Ok(mut all) = ALL_PANICS.lock() {
            if all.len() < 1000 {
                all.push(msg.clone());
            }
        }
        let _ = PANICS.try_with(|p| p.borrow_mut().push(msg));
    }));
}

pub fn take_panics() -> Vec<String> {
    PANICS.with(|p| std::mem::take(&mut *p.borrow_mut()))
}

/// Suspends allocation tracking for harness bookkeeping done inside a tracked poll.
pub struct Pause(bool);

pub fn pause() -> Pause {
    Pause(TRACK.with(|t| t.replace(false)))
}

impl Drop for Pause {
    fn drop(&mut self) {
        let _ = TRACK.try_with(|t| t.set(self.0));
    }
}
