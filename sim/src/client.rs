//! The simulated Minecraft client. Reactive (answers what the server sends, like a real client)
//! or scripted (fires a fixed list of frames), with knobs for every deviation the properties
//! quantify over: Encryption Response variants, cookie payloads, keep-alive echo policies, frame
//! mutations, going silent or closing after any frame, and a segmentation plan for its byte stream.

use crate::ccrypto::{Cfb8, RsaPub};
use crate::codec::{self, Phase, Rd};
use crate::pipe::{ClientEnd, EofKind, Gate};
use crate::rng::Rng;
use crate::world::{hex, hexopt, hexser, unhex};
use serde::{Deserialize, Serialize};
use serde_json::{Value, json};
use std::collections::BTreeMap;
use std::time::Duration;

#[derive(Clone, Debug, Serialize, Deserialize, PartialEq)]
pub enum EncVariant {
    Honest,
    /// a random token, encrypted to the server key
    WrongToken,
    /// a token issued on another connection, encrypted to the server key
    StaleToken {
        #[serde(with = "hexser")]
        token: Vec<u8>,
    },
    /// secret and token encrypted to a key the server does not hold
    OtherKey,
    /// both fields random bytes of this length
    Garbage { len: usize },
    /// the token sent back unencrypted
    TokenPlain,
    /// honest token, shared secret of this many bytes
    SecretLen { len: usize },
    /// honest secret, token field of this many zero bytes
    TokenZero { len: usize },
    /// the first `len` bytes of the issued token (0..=31), encrypted to the server key
    TokenPrefix { len: usize },
    /// the issued token followed by `extra` more bytes, encrypted to the server key
    TokenExtended { extra: usize },
}

#[derive(Clone, Debug, Serialize, Deserialize, PartialEq)]
pub enum KaPolicy {
    Prompt,
    Delay { ns: u64 },
    Never,
    WrongId,
    Duplicate,
}

#[derive(Clone, Debug, Serialize, Deserialize, PartialEq)]
pub struct Cut {
    /// offset in the client's serverbound byte stream at which a new segment starts
    pub at: u64,
    pub gate: Gate,
    #[serde(default)]
    pub spurious: u8,
}

#[derive(Clone, Debug, Serialize, Deserialize, PartialEq)]
pub enum MutOp {
    /// replace the frame's length prefix by this value (body unchanged)
    OuterLen { v: i32 },
    /// replace the frame's length prefix by these raw bytes (body unchanged)
    OuterRaw {
        #[serde(with = "hexser")]
        bytes: Vec<u8>,
    },
    /// keep only the first `keep` bytes of the frame
    Truncate { keep: usize },
    Patch {
        off: usize,
        #[serde(with = "hexser")]
        bytes: Vec<u8>,
    },
    /// replace `del` bytes at `off` by `bytes`; with `fix_len` the frame's length prefix is
    /// re-computed afterwards (`off` then counts from the first byte after the old prefix)
    Splice {
        off: usize,
        del: usize,
        #[serde(with = "hexser")]
        bytes: Vec<u8>,
        #[serde(default)]
        fix_len: bool,
    },
    Append {
        #[serde(with = "hexser")]
        bytes: Vec<u8>,
    },
    /// flip a bit of the bytes as they go on the wire (after encryption)
    WireFlip { off: usize, bit: u8 },
    /// pad the frame's content with zero bytes until it declares (and has) `total` bytes
    PadTo { total: usize },
}

#[derive(Clone, Debug, Serialize, Deserialize, PartialEq)]
pub struct Mutation {
    pub frame: usize,
    pub op: MutOp,
}

#[derive(Clone, Debug, Serialize, Deserialize, PartialEq)]
pub enum KaId {
    Echo,
    Fixed(u64),
}

#[derive(Clone, Debug, Serialize, Deserialize, PartialEq)]
pub enum Body {
    Empty,
    Raw {
        #[serde(with = "hexser")]
        bytes: Vec<u8>,
    },
    Handshake {
        protocol: i32,
        host: String,
        port: u16,
        next: i32,
    },
    Ping {
        payload: u64,
    },
    LoginStart {
        name: String,
        uuid: String,
    },
    Cookie {
        key: String,
        #[serde(with = "hexopt")]
        payload: Option<Vec<u8>>,
    },
    KeepAlive {
        id: KaId,
    },
    ClientInfo {
        locale: String,
    },
    ResourcePack {
        result: i32,
    },
    Pong {
        id: i32,
    },
}

#[derive(Clone, Debug, Serialize, Deserialize, PartialEq)]
pub enum Step {
    Frame { id: i32, body: Body },
    Enc { variant: EncVariant },
    RawBytes {
        #[serde(with = "hexser")]
        bytes: Vec<u8>,
    },
    WaitNs { ns: u64 },
    Close { reset: bool },
}

#[derive(Clone, Debug, Serialize, Deserialize, PartialEq)]
pub struct Extra {
    /// virtual time since the client connected, or since it sent Login Acknowledged (`after_ack`)
    pub at_ns: u64,
    #[serde(default)]
    pub after_ack: bool,
    pub id: i32,
    pub body: Body,
}

/// A long run of valid, ignorable configuration frames (plugin messages) sent in one burst.
#[derive(Clone, Debug, Serialize, Deserialize, PartialEq)]
pub struct Flood {
    /// virtual time after Login Acknowledged
    pub at_ns: u64,
    pub count: u32,
    pub size: u32,
}

#[derive(Clone, Debug, Serialize, Deserialize, PartialEq)]
pub struct ClientSpec {
    pub intent: i32,
    pub protocol: i32,
    pub host: String,
    pub port: u16,
    pub name: String,
    /// 32 hex digits
    pub uuid: String,
    #[serde(with = "hexser")]
    pub shared_secret: Vec<u8>,
    pub enc: EncVariant,
    #[serde(with = "hexopt")]
    pub session_cookie: Option<Vec<u8>>,
    #[serde(with = "hexopt")]
    pub auth_cookie: Option<Vec<u8>>,
    pub ping_payload: u64,
    pub ack_delay_ns: u64,
    pub info_delay_ns: u64,
    /// think time before the k-th login-phase answer (cookie responses, Encryption Response)
    #[serde(default)]
    pub login_think_ns: Vec<u64>,
    pub send_info: bool,
    pub locale: String,
    #[serde(default)]
    pub ka: Vec<KaPolicy>,
    pub ka_default: KaPolicy,
    #[serde(default)]
    pub extras: Vec<Extra>,
    #[serde(default)]
    pub flood: Option<Flood>,
    #[serde(default)]
    pub script: Option<Vec<Step>>,
    pub script_gap_ns: u64,
    #[serde(default)]
    pub mutations: Vec<Mutation>,
    #[serde(default)]
    pub cuts: Vec<Cut>,
    /// close (clean or reset) right after this many frames were sent
    #[serde(default)]
    pub close_after: Option<(usize, bool)>,
    /// send nothing beyond this many frames, but keep the connection open
    #[serde(default)]
    pub mute_after: Option<usize>,
    /// close this long after Transfer / Disconnect / Pong (None: wait for the server's EOF)
    #[serde(default)]
    pub close_on_end_ns: Option<u64>,
    /// bytes sent before anything else (PROXY protocol header), not counted as a frame
    #[serde(default, with = "hexopt")]
    pub preamble: Option<Vec<u8>>,
    /// back-to-back frames may reach the server in one read (TCP coalescing); boundaries made by
    /// `cuts` stay hard
    #[serde(default)]
    pub coalesce: bool,
    /// Login Acknowledged (and Client Information after its delay) are sent right behind the Encryption
    /// Response instead of waiting for Login Success (a client that pipelines)
    #[serde(default)]
    pub early_ack: bool,
    /// every frame's length prefix carries this many extra continuation groups (a non-minimal but
    /// legal VarInt of at most five bytes, as some proxies write them)
    #[serde(default)]
    pub len_pad: u8,
    /// Client Information fields other than the locale: (view distance, chat mode 0-2, main hand 0-1, particle status 0-2, displayed skin parts)
    #[serde(default = "default_info")]
    pub info: (i8, i32, i32, i32, u8),
    /// a status client takes this long between the Status Response and its Ping
    #[serde(default)]
    pub ping_delay_ns: u64,
    /// the end of stream of the client's hang-up reaches the server's reader this much later (the hang-up itself
    /// is visible to the transport at once)
    #[serde(default)]
    pub eof_delay_ns: u64,
    /// (requested key, key the answer is sent under): the client answers a Cookie Request under another key, with the
    /// cookie it holds for that other key
    #[serde(default, skip_serializing_if = "Vec::is_empty")]
    pub cookie_rekey: Vec<(String, String)>,
    /// seed for the client's own padding / random tokens
    pub rng: u64,
}

fn default_info() -> (i8, i32, i32, i32, u8) {
    (10, 0, 1, 0, 0x7f)
}

impl ClientSpec {
    pub fn base(rng: &mut Rng, intent: i32) -> Self {
        Self {
            intent,
            protocol: 769,
            host: "mc.example.org".into(),
            port: 25565,
            name: "Steve".into(),
            uuid: format!("{:032x}", (u128::from(rng.next_u64()) << 64) | u128::from(rng.next_u64())),
            shared_secret: rng.bytes(16),
            enc: EncVariant::Honest,
            session_cookie: None,
            auth_cookie: None,
            ping_payload: rng.next_u64(),
            ack_delay_ns: 0,
            info_delay_ns: 0,
            login_think_ns: vec![],
            send_info: true,
            locale: "en_US".into(),
            ka: vec![],
            ka_default: KaPolicy::Prompt,
            extras: vec![],
            flood: None,
            script: None,
            script_gap_ns: 1_000_000,
            mutations: vec![],
            cuts: vec![],
            close_after: None,
            mute_after: None,
            close_on_end_ns: Some(0),
            preamble: None,
            coalesce: false,
            early_ack: false,
            len_pad: 0,
            cookie_rekey: vec![],
            eof_delay_ns: 0,
            info: default_info(),
            ping_delay_ns: 0,
            rng: rng.next_u64(),
        }
    }

    pub fn uuid_u128(&self) -> u128 {
        u128::from_str_radix(&self.uuid, 16).unwrap_or(0)
    }
}

#[derive(Clone, Debug, Serialize, Deserialize, PartialEq)]
pub struct Recv {
    pub t_ns: u64,
    pub phase: String,
    pub id: i32,
    pub kind: String,
    pub fields: Value,
    pub len: usize,
}

#[derive(Clone, Debug, Serialize, Deserialize, PartialEq)]
pub struct SentFrame {
    pub t_ns: u64,
    pub start: u64,
    pub end: u64,
    pub kind: String,
    pub mutated: bool,
}

#[derive(Clone, Debug, Default, Serialize, Deserialize, PartialEq)]
pub struct ClientView {
    pub packets: Vec<Recv>,
    pub undecodable: Option<String>,
    pub partial_at_eof: usize,
    pub eof_ns: Option<u64>,
    pub sent: Vec<SentFrame>,
    pub stored: BTreeMap<String, String>,
    pub verify_token: Option<String>,
    pub server_key: Option<String>,
    pub rx_total: u64,
    pub encrypted: bool,
    pub connect_ns: u64,
}

impl ClientView {
    pub fn kinds(&self) -> Vec<&str> {
        self.packets.iter().map(|p| p.kind.as_str()).collect()
    }
    pub fn first(&self, kind: &str) -> Option<&Recv> {
        self.packets.iter().find(|p| p.kind == kind)
    }
    pub fn all(&self, kind: &str) -> Vec<&Recv> {
        self.packets.iter().filter(|p| p.kind == kind).collect()
    }
    pub fn stored_bytes(&self, key: &str) -> Option<Vec<u8>> {
        self.stored.get(key).map(|h| unhex(h))
    }
}

#[derive(Clone, Debug)]
enum Action {
    Send { kind: &'static str, id: i32, body: Vec<u8> },
    Script(usize),
    Extra(usize),
    Close { reset: bool },
    EncResp,
    Flood,
}

struct Engine<'a> {
    spec: &'a ClientSpec,
    pipe: &'a ClientEnd,
    rng: Rng,
    view: ClientView,
    phase: Phase,
    rx: Vec<u8>,
    enc: Option<Cfb8>,
    dec: Option<Cfb8>,
    last_ka: Option<u64>,
    ka_seen: usize,
    sched: Vec<(u64, u64, Action)>,
    sched_seq: u64,
    closed: bool,
    ended: bool,
    last_enc_req: Option<(Vec<u8>, Vec<u8>)>,
    login_answers: usize,
}

fn phase_name(p: Phase) -> &'static str {
    match p {
        Phase::Status => "status",
        Phase::Login => "login",
        Phase::Config => "config",
    }
}

impl<'a> Engine<'a> {
    fn now(&self) -> u64 {
        self.pipe.world.lock().unwrap().now_ns()
    }

    fn at(&mut self, delay_ns: u64, a: Action) {
        let t = self.now().saturating_add(delay_ns);
        self.sched_seq += 1;
        self.sched.push((t, self.sched_seq, a));
    }

    fn at_abs(&mut self, t: u64, a: Action) {
        self.sched_seq += 1;
        self.sched.push((t, self.sched_seq, a));
    }

    fn next_due(&self) -> Option<(usize, u64)> {
        let mut best: Option<(usize, u64, u64)> = None;
        for (i, (t, s, _)) in self.sched.iter().enumerate() {
            if best.is_none_or(|(_, bt, bs)| (*t, *s) < (bt, bs)) {
                best = Some((i, *t, *s));
            }
        }
        best.map(|(i, t, _)| (i, t))
    }

    fn body_bytes(&self, body: &Body) -> Vec<u8> {
        match body {
            Body::Empty => vec![],
            Body::Raw { bytes } => bytes.clone(),
            Body::Handshake {
                protocol,
                host,
                port,
                next,
            } => codec::handshake_body(*protocol, host, *port, *next),
            Body::Ping { payload } => payload.to_be_bytes().to_vec(),
            Body::LoginStart { name, uuid } => {
                codec::login_start_body(name, u128::from_str_radix(uuid, 16).unwrap_or(0))
            }
            Body::Cookie { key, payload } => codec::cookie_response_body(key, payload.as_deref()),
            Body::KeepAlive { id } => match id {
                KaId::Echo => self.last_ka.unwrap_or(0).to_be_bytes().to_vec(),
                KaId::Fixed(v) => v.to_be_bytes().to_vec(),
            },
            Body::ClientInfo { locale } => {
                codec::client_info_body(locale, self.spec.info.0, self.spec.info.1, true, self.spec.info.4, self.spec.info.2, false, true, self.spec.info.3)
            }
            Body::ResourcePack { result } => {
                let mut b = 7u128.to_be_bytes().to_vec();
                codec::put_varint(&mut b, *result);
                b
            }
            Body::Pong { id } => id.to_be_bytes().to_vec(),
        }
    }

    fn send_raw(&mut self, kind: &str, mut bytes: Vec<u8>, is_frame: bool) {
        if self.closed {
            return;
        }
        let idx = self.view.sent.len();
        if is_frame {
            if let Some(m) = self.spec.mute_after
                && idx >= m
            {
                return;
            }
        }
        let mut mutated = false;
        let mut flips: Vec<(usize, u8)> = vec![];
        if is_frame {
            for m in self.spec.mutations.iter().filter(|m| m.frame == idx) {
                mutated = true;
                match &m.op {
                    MutOp::OuterLen { v } => {
                        let mut r = Rd::new(&bytes);
                        let _ = r.varint();
                        let rest = bytes[r.p..].to_vec();
                        bytes = codec::varint(*v);
                        bytes.extend_from_slice(&rest);
                    }
                    MutOp::OuterRaw { bytes: raw } => {
                        let mut r = Rd::new(&bytes);
                        let _ = r.varint();
                        let rest = bytes[r.p..].to_vec();
                        bytes = raw.clone();
                        bytes.extend_from_slice(&rest);
                    }
                    MutOp::Truncate { keep } => bytes.truncate(*keep),
                    MutOp::Patch { off, bytes: b } => {
                        for (i, x) in b.iter().enumerate() {
                            if let Some(slot) = bytes.get_mut(off + i) {
                                *slot = *x;
                            }
                        }
                    }
                    MutOp::Splice { off, del, bytes: b, fix_len } => {
                        if *fix_len {
                            let mut r = Rd::new(&bytes);
                            let _ = r.varint();
                            let mut body = bytes[r.p..].to_vec();
                            let off = (*off).min(body.len());
                            let end = (off + del).min(body.len());
                            body.splice(off..end, b.iter().copied());
                            bytes = codec::varint(body.len() as i32);
                            bytes.extend_from_slice(&body);
                        } else {
                            let off = (*off).min(bytes.len());
                            let end = (off + del).min(bytes.len());
                            bytes.splice(off..end, b.iter().copied());
                        }
                    }
                    MutOp::PadTo { total } => {
                        let mut r = Rd::new(&bytes);
                        let _ = r.varint();
                        let mut body = bytes[r.p..].to_vec();
                        if body.len() < *total {
                            body.resize(*total, 0);
                        }
                        bytes = codec::varint(body.len() as i32);
                        bytes.extend_from_slice(&body);
                    }
                    MutOp::Append { bytes: b } => bytes.extend_from_slice(b),
                    MutOp::WireFlip { off, bit } => flips.push((*off, *bit)),
                }
            }
        }
        if let Some(enc) = &mut self.enc {
            enc.encrypt(&mut bytes);
        }
        for (off, bit) in flips {
            if let Some(b) = bytes.get_mut(off) {
                *b ^= 1 << (bit & 7);
            }
        }
        let start = self.pipe.sent_total();
        let end = start + bytes.len() as u64;
        // split at the cuts that fall into [start, end)
        let mut cuts: Vec<&Cut> = self
            .spec
            .cuts
            .iter()
            .filter(|c| c.at >= start && c.at < end)
            .collect();
        cuts.sort_by_key(|c| c.at);
        let mut pos = start;
        let mut gate = Gate::Now;
        let mut spurious = 0u8;
        let mut segs: Vec<(Vec<u8>, Gate, u8)> = vec![];
        for c in cuts {
            if c.at > pos {
                segs.push((
                    bytes[(pos - start) as usize..(c.at - start) as usize].to_vec(),
                    gate.clone(),
                    spurious,
                ));
                pos = c.at;
            }
            gate = c.gate.clone();
            spurious = c.spurious;
        }
        segs.push((bytes[(pos - start) as usize..].to_vec(), gate, spurious));
        let nsegs = segs.len();
        for (i, (b, g, s)) in segs.into_iter().enumerate() {
            if !matches!(g, Gate::Now) {
                self.pipe.world.lock().unwrap().fault("c2s_gated_segment");
            }
            // only the boundary in front of a frame (not one a cut asked for) may be coalesced away
            let join = self.spec.coalesce && i == 0 && start > 0;
            self.pipe.send_seg_join(b, g, s, join);
        }
        if nsegs > 1 {
            self.pipe.world.lock().unwrap().fault("c2s_frame_split");
        }
        if is_frame {
            self.pipe.mark_frame_end();
            let t = self.now();
            self.view.sent.push(SentFrame {
                t_ns: t,
                start,
                end,
                kind: kind.to_string(),
                mutated,
            });
            self.pipe.world.lock().unwrap().ev(
                &self.pipe.st.lock().unwrap().label.clone(),
                "send",
                json!({"kind": kind, "start": start, "end": end, "mutated": mutated}),
            );
            if let Some((k, reset)) = self.spec.close_after
                && self.view.sent.len() >= k
            {
                self.do_close(reset);
            }
        }
    }

    fn send_packet(&mut self, kind: &'static str, id: i32, body: &[u8]) {
        let mut f = codec::frame(id, body);
        if self.spec.len_pad > 0 {
            // re-encode the length prefix with extra continuation groups (value unchanged)
            let mut r = Rd::new(&f);
            let len = r.varint().unwrap_or(0);
            let rest = f[r.p..].to_vec();
            let mut p = codec::varint(len);
            let want = (p.len() + self.spec.len_pad as usize).min(5);
            while p.len() < want {
                let l = p.len() - 1;
                p[l] |= 0x80;
                p.push(0x00);
            }
            p.extend_from_slice(&rest);
            f = p;
        }
        self.send_raw(kind, f, true);
    }

    fn do_close(&mut self, reset: bool) {
        if self.closed {
            return;
        }
        self.closed = true;
        self.pipe.close(
            if reset { EofKind::Reset } else { EofKind::Clean },
            if self.spec.eof_delay_ns > 0 { Gate::Delay { ns: self.spec.eof_delay_ns } } else { Gate::Now },
        );
    }

    fn enc_response(&mut self, variant: &EncVariant) -> Vec<u8> {
        let (key_der, token) = self.last_enc_req.clone().unwrap_or((vec![], vec![0u8; 32]));
        let key = RsaPub::from_spki_der(&key_der);
        let secret = self.spec.shared_secret.clone();
        let mut rng = self.rng.fork();
        let enc_to = |rng: &mut Rng, k: &Option<RsaPub>, m: &[u8]| -> Vec<u8> {
            k.as_ref()
                .and_then(|k| k.encrypt(rng, m))
                .unwrap_or_else(|| rng.bytes(128))
        };
        let (s, t) = match variant {
            EncVariant::Honest => (enc_to(&mut rng, &key, &secret), enc_to(&mut rng, &key, &token)),
            EncVariant::WrongToken => {
                let wrong = rng.bytes(32);
                (enc_to(&mut rng, &key, &secret), enc_to(&mut rng, &key, &wrong))
            }
            EncVariant::StaleToken { token } => {
                (enc_to(&mut rng, &key, &secret), enc_to(&mut rng, &key, token))
            }
            EncVariant::OtherKey => {
                let other = Some(RsaPub::bogus(&mut rng));
                (enc_to(&mut rng, &other, &secret), enc_to(&mut rng, &other, &token))
            }
            EncVariant::Garbage { len } => (rng.bytes(*len), rng.bytes(*len)),
            EncVariant::TokenPlain => (enc_to(&mut rng, &key, &secret), token.clone()),
            EncVariant::SecretLen { len } => {
                // the client's own 16-byte secret cut or padded to `len`: a server that quietly cuts a
                // longer secret down would be keyed like the client, and the client would see it go on
                let mut s = secret.clone();
                s.truncate(*len);
                let pad = rng.bytes(len.saturating_sub(s.len()));
                s.extend(pad);
                (enc_to(&mut rng, &key, &s), enc_to(&mut rng, &key, &token))
            }
            EncVariant::TokenZero { len } => (enc_to(&mut rng, &key, &secret), vec![0u8; *len]),
            EncVariant::TokenPrefix { len } => {
                let t = token[..(*len).min(token.len())].to_vec();
                (enc_to(&mut rng, &key, &secret), enc_to(&mut rng, &key, &t))
            }
            EncVariant::TokenExtended { extra } => {
                let mut t = token.clone();
                t.extend(rng.bytes(*extra));
                (enc_to(&mut rng, &key, &secret), enc_to(&mut rng, &key, &t))
            }
        };
        codec::enc_response_body(&s, &t)
    }

    fn enable_crypto(&mut self) {
        if let (Some(e), Some(d)) = (
            Cfb8::new(&self.spec.shared_secret),
            Cfb8::new(&self.spec.shared_secret),
        ) {
            self.enc = Some(e);
            self.dec = Some(d);
            self.view.encrypted = true;
        }
    }

    fn on_bytes(&mut self, t: u64, mut chunk: Vec<u8>) {
        self.view.rx_total += chunk.len() as u64;
        if let Some(d) = &mut self.dec {
            d.decrypt(&mut chunk);
        }
        self.rx.extend_from_slice(&chunk);
        loop {
            if self.view.undecodable.is_some() {
                return;
            }
            let mut r = Rd::new(&self.rx);
            // need a complete length prefix
            let mut complete = false;
            for (i, b) in self.rx.iter().enumerate().take(5) {
                if b & 0x80 == 0 {
                    complete = true;
                    let _ = i;
                    break;
                }
            }
            if !complete {
                if self.rx.len() >= 5 {
                    self.view.undecodable = Some("length prefix longer than 5 bytes".into());
                }
                return;
            }
            let len = r.varint().unwrap_or(-1);
            if len <= 0 || len > 2_097_151 {
                self.view.undecodable = Some(format!("frame length {len}"));
                return;
            }
            if r.left() < len as usize {
                return;
            }
            let hdr = r.p;
            let body_all = self.rx[hdr..hdr + len as usize].to_vec();
            self.rx.drain(..hdr + len as usize);
            let mut br = Rd::new(&body_all);
            let Some(id) = br.varint() else {
                self.view.undecodable = Some("packet id".into());
                return;
            };
            let body = &body_all[br.p..];
            match codec::decode_clientbound(self.phase, id, body) {
                Some((kind, fields)) => {
                    let ph = phase_name(self.phase);
                    self.pipe.world.lock().unwrap().ev(
                        &self.pipe.st.lock().unwrap().label.clone(),
                        "recv",
                        json!({"kind": kind, "len": len}),
                    );
                    self.view.packets.push(Recv {
                        t_ns: t,
                        phase: ph.to_string(),
                        id,
                        kind: kind.to_string(),
                        fields: fields.clone(),
                        len: len as usize,
                    });
                    self.react(kind, &fields);
                }
                None => {
                    self.view.undecodable = Some(format!(
                        "cannot decode id {id:#x} in phase {} ({} body bytes)",
                        phase_name(self.phase),
                        body.len()
                    ));
                    return;
                }
            }
        }
    }

    fn react(&mut self, kind: &str, f: &Value) {
        let reactive = self.spec.script.is_none();
        match kind {
            "StatusResponse" => {
                if reactive {
                    let p = self.spec.ping_payload.to_be_bytes();
                    if self.spec.ping_delay_ns == 0 {
                        self.send_packet("Ping", 0x01, &p);
                    } else {
                        self.at(self.spec.ping_delay_ns, Action::Send { kind: "Ping", id: 0x01, body: p.to_vec() });
                    }
                }
            }
            "Pong" => self.end(),
            "CookieRequest" => {
                if reactive && self.phase == Phase::Login {
                    let asked = f["key"].as_str().unwrap_or("").to_string();
                    let key = self.spec.cookie_rekey.iter().find(|(a, _)| *a == asked).map(|(_, b)| b.clone()).unwrap_or(asked);
                    let payload = match key.as_str() {
                        "passage:session" => self.spec.session_cookie.clone(),
                        "passage:authentication" => self.spec.auth_cookie.clone(),
                        _ => None,
                    };
                    let body = codec::cookie_response_body(&key, payload.as_deref());
                    let think = self.next_think();
                    if think == 0 {
                        self.send_packet("CookieResponse", 0x04, &body);
                    } else {
                        self.at(think, Action::Send { kind: "CookieResponse", id: 0x04, body });
                    }
                }
            }
            "EncryptionRequest" => {
                let key = unhex(f["public_key"].as_str().unwrap_or(""));
                let token = unhex(f["verify_token"].as_str().unwrap_or(""));
                self.view.verify_token = Some(hex(&token));
                self.view.server_key = Some(hex(&key));
                self.last_enc_req = Some((key, token));
                if reactive {
                    let think = self.next_think();
                    if think == 0 {
                        self.run_action(Action::EncResp);
                    } else {
                        self.at(think, Action::EncResp);
                    }
                }
            }
            "LoginSuccess" => {
                self.phase = Phase::Config;
                if reactive && !self.spec.early_ack {
                    self.at(
                        self.spec.ack_delay_ns,
                        Action::Send {
                            kind: "LoginAck",
                            id: 0x03,
                            body: vec![],
                        },
                    );
                    if self.spec.send_info {
                        let body = codec::client_info_body(&self.spec.locale, self.spec.info.0, self.spec.info.1, true, self.spec.info.4, self.spec.info.2, false, true, self.spec.info.3);
                        self.at(
                            self.spec.ack_delay_ns + self.spec.info_delay_ns,
                            Action::Send {
                                kind: "ClientInfo",
                                id: 0x00,
                                body,
                            },
                        );
                    }
                }
            }
            "KeepAlive" => {
                let id = f["id"].as_u64().unwrap_or(0);
                self.last_ka = Some(id);
                let pol = self
                    .spec
                    .ka
                    .get(self.ka_seen)
                    .cloned()
                    .unwrap_or_else(|| self.spec.ka_default.clone());
                self.ka_seen += 1;
                if reactive {
                    let echo = Action::Send {
                        kind: "KeepAliveEcho",
                        id: 0x04,
                        body: id.to_be_bytes().to_vec(),
                    };
                    match pol {
                        KaPolicy::Prompt => self.at(0, echo),
                        KaPolicy::Delay { ns } => self.at(ns, echo),
                        KaPolicy::Never => {}
                        KaPolicy::WrongId => self.at(
                            0,
                            Action::Send {
                                kind: "KeepAliveWrong",
                                id: 0x04,
                                body: (id ^ 0x5555).to_be_bytes().to_vec(),
                            },
                        ),
                        KaPolicy::Duplicate => {
                            self.at(0, echo.clone());
                            self.at(0, echo);
                        }
                    }
                }
            }
            "StoreCookie" => {
                let key = f["key"].as_str().unwrap_or("").to_string();
                let payload = f["payload"].as_str().unwrap_or("").to_string();
                self.view.stored.insert(key, payload);
            }
            "Transfer" | "Disconnect" | "LoginDisconnect" => self.end(),
            _ => {}
        }
    }

    fn next_think(&mut self) -> u64 {
        let t = self.spec.login_think_ns.get(self.login_answers).copied().unwrap_or(0);
        self.login_answers += 1;
        t
    }

    fn end(&mut self) {
        if self.ended {
            return;
        }
        self.ended = true;
        if let Some(d) = self.spec.close_on_end_ns {
            self.at(d, Action::Close { reset: false });
        }
    }

    fn run_action(&mut self, a: Action) {
        match a {
            Action::Send { kind, id, body } => {
                self.send_packet(kind, id, &body);
                if kind == "LoginAck" {
                    for (i, x) in self.spec.extras.iter().enumerate() {
                        if x.after_ack {
                            self.at(x.at_ns, Action::Extra(i));
                        }
                    }
                    if let Some(f) = &self.spec.flood {
                        self.at(f.at_ns, Action::Flood);
                    }
                }
            }
            Action::Close { reset } => self.do_close(reset),
            Action::EncResp => {
                let v = self.spec.enc.clone();
                let body = self.enc_response(&v);
                self.send_packet("EncryptionResponse", 0x01, &body);
                self.enable_crypto();
                if self.spec.early_ack {
                    self.at(self.spec.ack_delay_ns, Action::Send { kind: "LoginAck", id: 0x03, body: vec![] });
                    if self.spec.send_info {
                        let body = codec::client_info_body(&self.spec.locale, self.spec.info.0, self.spec.info.1, true, self.spec.info.4, self.spec.info.2, false, true, self.spec.info.3);
                        self.at(self.spec.ack_delay_ns + self.spec.info_delay_ns, Action::Send { kind: "ClientInfo", id: 0x00, body });
                    }
                }
            }
            Action::Flood => {
                if let Some(f) = self.spec.flood.clone() {
                    let mut body = b"\x0fminecraft:brand".to_vec();
                    body.resize(f.size.max(16) as usize, 0x2e);
                    for _ in 0..f.count {
                        self.send_packet("Flood", 0x02, &body);
                    }
                }
            }
            Action::Extra(i) => {
                let e = self.spec.extras[i].clone();
                let b = self.body_bytes(&e.body);
                self.send_packet("Extra", e.id, &b);
            }
            Action::Script(i) => {
                let steps = self.spec.script.as_ref().unwrap();
                let Some(step) = steps.get(i).cloned() else {
                    return;
                };
                let mut gap = self.spec.script_gap_ns;
                match step {
                    Step::Frame { id, body } => {
                        if let Body::Handshake { next, .. } = &body {
                            self.phase = if *next == 1 { Phase::Status } else { Phase::Login };
                        }
                        let b = self.body_bytes(&body);
                        self.send_packet("Script", id, &b);
                    }
                    Step::Enc { variant } => {
                        let b = self.enc_response(&variant);
                        self.send_packet("EncryptionResponse", 0x01, &b);
                        self.enable_crypto();
                    }
                    Step::RawBytes { bytes } => self.send_raw("Raw", bytes, true),
                    Step::WaitNs { ns } => gap = ns,
                    Step::Close { reset } => self.do_close(reset),
                }
                if i + 1 < steps.len() {
                    // the client switches its own decryption on when it sends the Encryption Response:
                    // everything the server wrote earlier must have arrived by then (services are instant)
                    // (and an end of stream that races with the handling of the last frame may
                    // legitimately cut the server's answer short: keep it apart as well)
                    if matches!(steps[i + 1], Step::Enc { .. } | Step::Close { .. }) {
                        gap = gap.max(1_000_000);
                    }
                    self.at(gap, Action::Script(i + 1));
                }
            }
        }
    }
}

/// Runs the client until the server's end of stream or until virtual time `deadline_ns`.
/// Returns what the client saw.
pub async fn run_client(spec: &ClientSpec, pipe: &ClientEnd, deadline_ns: u64) -> ClientView {
    let mut e = Engine {
        spec,
        pipe,
        rng: Rng::new(spec.rng),
        view: ClientView::default(),
        phase: if spec.intent == 1 { Phase::Status } else { Phase::Login },
        rx: vec![],
        enc: None,
        dec: None,
        last_ka: None,
        ka_seen: 0,
        sched: vec![],
        sched_seq: 0,
        closed: false,
        ended: false,
        last_enc_req: None,
        login_answers: 0,
    };
    let t_connect = e.now();
    e.view.connect_ns = t_connect;
    if let Some(p) = &spec.preamble {
        e.send_raw("Preamble", p.clone(), false);
    }
    if let Some(steps) = &spec.script {
        if !steps.is_empty() {
            e.at(0, Action::Script(0));
        }
    } else {
        let hs = codec::handshake_body(spec.protocol, &spec.host, spec.port, spec.intent);
        e.send_packet("Handshake", 0x00, &hs);
        if spec.intent == 1 {
            e.send_packet("StatusRequest", 0x00, &[]);
        } else {
            let ls = codec::login_start_body(&spec.name, spec.uuid_u128());
            e.send_packet("LoginStart", 0x00, &ls);
        }
    }
    for (i, x) in spec.extras.iter().enumerate() {
        if !x.after_ack {
            e.at_abs(t_connect + x.at_ns, Action::Extra(i));
        }
    }
    loop {
        let due = e.next_due();
        let now = e.now();
        if let Some((i, t)) = due
            && t <= now
        {
            let (_, _, a) = e.sched.remove(i);
            e.run_action(a);
            continue;
        }
        if now >= deadline_ns {
            e.view.partial_at_eof = e.rx.len();
            break;
        }
        let sleep_ns = Some(due.map(|(_, t)| t - now).unwrap_or(u64::MAX).min(deadline_ns - now));
        tokio::select! {
            biased;
            _ = async {
                match sleep_ns {
                    Some(ns) => tokio::time::sleep(Duration::from_nanos(ns)).await,
                    None => std::future::pending::<()>().await,
                }
            } => {}
            got = pipe.recv() => {
                match got {
                    Some((t, chunk)) => e.on_bytes(t, chunk),
                    None => {
                        e.view.eof_ns = Some(e.now());
                        e.view.partial_at_eof = e.rx.len();
                        break;
                    }
                }
            }
        }
    }
    e.view
}
