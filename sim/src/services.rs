//! Scripted stand-ins for the six back-end services (the adapter traits are the seam). Each call
//! logs its arguments, waits a scripted virtual latency (or stalls forever) and returns the
//! scripted verdict; completions are signalled on the world's event board so transport gates can
//! be placed right around them.

use crate::pipe::St;
use crate::world::{W, hex};
use passage_adapters::authentication::{AuthenticationAdapter, Profile, ProfileProperty};
use passage_adapters::discovery::DiscoveryAdapter;
use passage_adapters::filter::FilterAdapter;
use passage_adapters::localization::LocalizationAdapter;
use passage_adapters::status::StatusAdapter;
use passage_adapters::strategy::StrategyAdapter;
use passage_adapters::{
    Error, FixedLocalizationAdapter, Protocol, ServerPlayer, ServerPlayers, ServerStatus,
    ServerVersion, Target,
};
use serde::{Deserialize, Serialize};
use serde_json::{Value, json};
use std::collections::{BTreeMap, HashMap};
use std::net::SocketAddr;
use std::sync::atomic::{AtomicU64, Ordering};
use std::sync::{Arc, Mutex};
use std::time::Duration;
use uuid::Uuid;

#[derive(Clone, Debug, Serialize, Deserialize, PartialEq)]
pub struct TargetSpec {
    pub id: String,
    pub addr: String,
    #[serde(default)]
    pub meta: BTreeMap<String, String>,
}

impl TargetSpec {
    pub fn to_target(&self) -> Target {
        Target {
            identifier: self.id.clone(),
            address: self.addr.parse().expect("target address"),
            meta: self.meta.clone().into_iter().collect::<HashMap<_, _>>(),
        }
    }
    pub fn from_target(t: &Target) -> Self {
        Self {
            id: t.identifier.clone(),
            addr: t.address.to_string(),
            meta: t.meta.clone().into_iter().collect(),
        }
    }
}

pub fn per_call_target(call: usize, k: usize) -> TargetSpec {
    TargetSpec { id: format!("d{call}-{k}"), addr: format!("10.{}.{}.{}:{}", (call / 250) % 250, call % 250, (k % 250) + 1, 25_000 + (k % 1000)), meta: [("call".to_string(), call.to_string())].into_iter().collect() }
}

pub fn targets_json(ts: &[Target]) -> Value {
    Value::Array(
        ts.iter()
            .map(|t| serde_json::to_value(TargetSpec::from_target(t)).unwrap())
            .collect(),
    )
}

#[derive(Clone, Debug, Serialize, Deserialize, PartialEq)]
pub struct PropSpec {
    pub name: String,
    pub value: String,
    pub signature: Option<String>,
}

#[derive(Clone, Debug, Serialize, Deserialize, PartialEq)]
pub enum AuthRes {
    /// vouch for exactly what the client claimed
    Claim,
    /// vouch for an identity derived from the claim (so that it differs from it and from everybody else's):
    /// name "v-<claimed name>", the claimed UUID with its low 64 bits inverted, one property naming the claim
    Derived,
    /// the service fails for players whose claimed name starts with this prefix and vouches for the claim of everybody else
    ErrorIfName { prefix: String },
    Profile {
        name: String,
        uuid: String,
        props: Vec<PropSpec>,
    },
    Error,
}

#[derive(Clone, Debug, Serialize, Deserialize, PartialEq)]
pub enum DiscRes {
    Targets(Vec<TargetSpec>),
    /// every call returns its own list of `n` targets ("d<call>-<k>" at 10.<call/250>.<call%250>.<k+1>:<25000+k>):
    /// an answer that is handed to anybody but the caller shows
    PerCall { n: usize },
    Error,
}

pub const INJECTED_PANIC: &str = "sim: injected backend panic";

#[derive(Clone, Debug, Serialize, Deserialize, PartialEq)]
pub enum FiltRes {
    /// a bug in the back-end adapter: panics when asked about this player, otherwise the identity
    PanicIfUser { name: String },
    Identity,
    Indices(Vec<usize>),
    Targets(Vec<TargetSpec>),
    Error,
}

#[derive(Clone, Debug, Serialize, Deserialize, PartialEq)]
pub enum StratRes {
    First,
    /// the index is taken from the player's UUID (different players, different picks)
    ByUser,
    Index(usize),
    Target(TargetSpec),
    None,
    Error,
}

#[derive(Clone, Debug, Serialize, Deserialize, PartialEq)]
pub enum StatusRes {
    None,
    Minimal,
    Full {
        name: String,
        online: u32,
        max: u32,
        description: String,
    },
    /// a status with a favicon of this many base64 characters (a 64x64 PNG is 2-30 KB) and a player sample
    Big {
        favicon_len: usize,
        sample: usize,
    },
    Error,
}

#[derive(Clone, Debug, Serialize, Deserialize, PartialEq)]
pub struct Call<R> {
    /// virtual latency; `None` = never answers
    pub lat_ns: Option<u64>,
    pub res: R,
}

#[derive(Clone, Debug, Serialize, Deserialize, PartialEq)]
pub struct Script<R> {
    #[serde(default = "Vec::new")]
    pub calls: Vec<Call<R>>,
    pub default: Call<R>,
}

impl<R: Clone> Script<R> {
    pub fn always(lat_ns: Option<u64>, res: R) -> Self {
        Self {
            calls: Vec::new(),
            default: Call { lat_ns, res },
        }
    }
    fn get(&self, i: u64) -> Call<R> {
        self.calls
            .get(i as usize)
            .cloned()
            .unwrap_or_else(|| self.default.clone())
    }
}

#[derive(Clone, Debug, Serialize, Deserialize, PartialEq)]
pub struct LocSpec {
    pub default_locale: String,
    pub messages: BTreeMap<String, BTreeMap<String, String>>,
    /// a localization back-end that takes this long to look up the timeout message (a remote table); 0 = at once
    #[serde(default)]
    pub timeout_lat_ns: u64,
}

impl Default for LocSpec {
    fn default() -> Self {
        let mut en = BTreeMap::new();
        en.insert(
            "disconnect_timeout".to_string(),
            "{\"text\":\"timeout-en\"}".to_string(),
        );
        en.insert(
            "disconnect_no_target".to_string(),
            "{\"text\":\"no-target-en\"}".to_string(),
        );
        let mut messages = BTreeMap::new();
        messages.insert("en".to_string(), en);
        Self {
            default_locale: "en_US".to_string(),
            messages,
            timeout_lat_ns: 0,
        }
    }
}

#[derive(Clone, Debug, Serialize, Deserialize, PartialEq)]
pub struct Services {
    pub status: Script<StatusRes>,
    pub auth: Script<AuthRes>,
    pub discovery: Script<DiscRes>,
    pub filter: Script<FiltRes>,
    pub strategy: Script<StratRes>,
    #[serde(default)]
    pub localization: LocSpec,
    /// a second filter behind the first (the chain `impl FilterAdapter for Vec<T>` of passage-adapters)
    #[serde(default, skip_serializing_if = "Option::is_none")]
    pub filter2: Option<Script<FiltRes>>,
    /// the `hostname` option of the real `OptionFilterAdapter` every link is wrapped in (None: always applies)
    #[serde(default, skip_serializing_if = "Option::is_none")]
    pub filter_hostname: Option<String>,
}

impl Default for Services {
    fn default() -> Self {
        Self {
            status: Script::always(Some(0), StatusRes::Minimal),
            auth: Script::always(Some(0), AuthRes::Claim),
            discovery: Script::always(Some(0), DiscRes::Targets(vec![])),
            filter: Script::always(Some(0), FiltRes::Identity),
            strategy: Script::always(Some(0), StratRes::First),
            localization: LocSpec::default(),
            filter2: None,
            filter_hostname: None,
        }
    }
}

fn sim_err() -> Error {
    Error::FailedFetch {
        adapter_type: "sim",
        cause: "scripted failure".into(),
    }
}

pub struct Shared {
    pub world: W,
    pub pipes: Mutex<Vec<St>>,
    /// back-end calls that are being waited for right now (a call whose future was dropped no longer counts)
    pub in_flight: std::sync::atomic::AtomicI64,
}

struct Flight(Sh);

impl Flight {
    fn new(sh: &Sh) -> Self {
        sh.in_flight.fetch_add(1, Ordering::SeqCst);
        Flight(sh.clone())
    }
}

impl Drop for Flight {
    fn drop(&mut self) {
        self.0.in_flight.fetch_sub(1, Ordering::SeqCst);
    }
}

pub type Sh = Arc<Shared>;

pub fn shared(world: &W) -> Sh {
    Arc::new(Shared {
        world: world.clone(),
        pipes: Mutex::new(Vec::new()),
        in_flight: std::sync::atomic::AtomicI64::new(0),
    })
}

async fn wait(sh: &Sh, name: &str, idx: u64, lat: Option<u64>) {
    let _flight = Flight::new(sh);
    match lat {
        Some(0) => {}
        Some(ns) => tokio::time::sleep(Duration::from_nanos(ns)).await,
        None => {
            sh.world.lock().unwrap().fault("service_stall");
            std::future::pending::<()>().await;
        }
    }
    let pipes: Vec<St> = sh.pipes.lock().unwrap().clone();
    let mut mid = false;
    let mut wblocked = false;
    for p in pipes {
        let p = p.lock().unwrap();
        if p.mid_frame() {
            mid = true;
        }
        if p.write_blocked {
            wblocked = true;
        }
    }
    let mut w = sh.world.lock().unwrap();
    if mid {
        w.probe("service_done_while_frame_half_read");
    }
    if wblocked {
        w.probe("service_done_while_write_partial");
    }
    if lat.unwrap_or(0) > 0 {
        w.fault("service_latency");
    }
    w.signal(&format!("{name}_done"));
    w.signal(&format!("{name}_done#{idx}"));
}

macro_rules! svc {
    ($name:ident, $res:ty) => {
        pub struct $name {
            pub sh: Sh,
            pub script: Script<$res>,
            pub n: AtomicU64,
        }
        impl std::fmt::Debug for $name {
            fn fmt(&self, f: &mut std::fmt::Formatter<'_>) -> std::fmt::Result {
                write!(f, stringify!($name))
            }
        }
        impl $name {
            pub fn new(sh: &Sh, script: Script<$res>) -> Self {
                Self {
                    sh: sh.clone(),
                    script,
                    n: AtomicU64::new(0),
                }
            }
        }
    };
}

svc!(SimStatus, StatusRes);
svc!(SimAuth, AuthRes);
svc!(SimDiscovery, DiscRes);
/// One link of the filter chain; the first logs as `svc:filter`, a second as `svc:filter2`.
pub struct SimFilter {
    pub sh: Mutex<Sh>,
    pub script: Script<FiltRes>,
    pub n: AtomicU64,
    pub actor: &'static str,
    pub wname: &'static str,
}
impl std::fmt::Debug for SimFilter {
    fn fmt(&self, f: &mut std::fmt::Formatter<'_>) -> std::fmt::Result {
        write!(f, "SimFilter")
    }
}
impl SimFilter {
    pub fn new(sh: &Sh, script: Script<FiltRes>) -> Self {
        Self { sh: Mutex::new(sh.clone()), script, n: AtomicU64::new(0), actor: "svc:filter", wname: "filter" }
    }
    pub fn second(sh: &Sh, script: Script<FiltRes>) -> Self {
        Self { sh: Mutex::new(sh.clone()), script, n: AtomicU64::new(0), actor: "svc:filter2", wname: "filter2" }
    }
    fn sh(&self) -> Sh {
        self.sh.lock().unwrap().clone()
    }
    /// The same adapter object serves the next simulated connection (its events go to that run's log).
    pub fn rebind(&self, sh: &Sh) {
        *self.sh.lock().unwrap() = sh.clone();
        self.n.store(0, Ordering::SeqCst);
    }
}
svc!(SimStrategy, StratRes);

impl StatusAdapter for SimStatus {
    async fn status(
        &self,
        client_addr: &SocketAddr,
        server_addr: (&str, u16),
        protocol: Protocol,
    ) -> passage_adapters::Result<Option<ServerStatus>> {
        let i = self.n.fetch_add(1, Ordering::SeqCst);
        let call = self.script.get(i);
        self.sh.world.lock().unwrap().ev(
            "svc:status",
            "call",
            json!({"i": i, "client_addr": client_addr.to_string(), "host": server_addr.0, "port": server_addr.1, "protocol": protocol}),
        );
        wait(&self.sh, "status", i, call.lat_ns).await;
        let res = match &call.res {
            StatusRes::None => Ok(None),
            StatusRes::Minimal => Ok(Some(ServerStatus {
                version: ServerVersion {
                    name: "sim".into(),
                    protocol,
                },
                ..Default::default()
            })),
            StatusRes::Full {
                name,
                online,
                max,
                description,
            } => Ok(Some(ServerStatus {
                version: ServerVersion {
                    name: name.clone(),
                    protocol,
                },
                players: Some(ServerPlayers {
                    online: *online,
                    max: *max,
                    sample: Some(vec![ServerPlayer {
                        name: "p".into(),
                        id: "00000000-0000-0000-0000-000000000001".into(),
                    }]),
                }),
                description: serde_json::value::RawValue::from_string(
                    serde_json::to_string(description).unwrap(),
                )
                .ok(),
                favicon: Some("data:image/png;base64,AAAA".into()),
                enforces_secure_chat: Some(true),
            })),
            StatusRes::Big { favicon_len, sample } => Ok(Some(ServerStatus {
                version: ServerVersion { name: "Sim 1.21.4".into(), protocol },
                players: Some(ServerPlayers {
                    online: *sample as u32,
                    max: 1000,
                    sample: Some((0..*sample).map(|k| ServerPlayer { name: format!("player_{k}"), id: format!("00000000-0000-0000-0000-{k:012x}") }).collect()),
                }),
                description: serde_json::value::RawValue::from_string("{\"text\":\"big\"}".into()).ok(),
                favicon: Some(format!("data:image/png;base64,{}", "iVBORw0KGgo".repeat(favicon_len / 11 + 1))),
                enforces_secure_chat: None,
            })),
            StatusRes::Error => Err(sim_err()),
        };
        let shown = match &res {
            Ok(s) => serde_json::to_value(s).unwrap_or(Value::Null),
            Err(_) => json!("error"),
        };
        self.sh
            .world
            .lock()
            .unwrap()
            .ev("svc:status", "done", json!({"i": i, "result": shown}));
        res
    }
}

impl AuthenticationAdapter for SimAuth {
    async fn authenticate(
        &self,
        client_addr: &SocketAddr,
        server_addr: (&str, u16),
        protocol: Protocol,
        user: (&str, &Uuid),
        shared_secret: &[u8],
        encoded_public: &[u8],
    ) -> passage_adapters::Result<Profile> {
        let i = self.n.fetch_add(1, Ordering::SeqCst);
        let call = self.script.get(i);
        self.sh.world.lock().unwrap().ev(
            "svc:auth",
            "call",
            json!({"i": i, "client_addr": client_addr.to_string(), "host": server_addr.0, "port": server_addr.1,
                   "protocol": protocol, "name": user.0, "uuid": format!("{:032x}", user.1.as_u128()),
                   "shared_secret": hex(shared_secret), "public_key": hex(encoded_public)}),
        );
        wait(&self.sh, "auth", i, call.lat_ns).await;
        let res = match &call.res {
            AuthRes::Claim => Ok(Profile {
                id: *user.1,
                name: user.0.to_string(),
                properties: vec![],
                profile_actions: vec![],
            }),
            AuthRes::ErrorIfName { prefix } if user.0.starts_with(prefix.as_str()) => Err(sim_err()),
            AuthRes::ErrorIfName { .. } => Ok(Profile { id: *user.1, name: user.0.to_string(), properties: vec![], profile_actions: vec![] }),
            AuthRes::Derived => Ok(Profile {
                id: Uuid::from_u128(user.1.as_u128() ^ 0xffff_ffff_ffff_ffff),
                name: format!("v-{}", user.0),
                properties: vec![ProfileProperty { name: "claimed".into(), value: user.0.to_string(), signature: None }],
                profile_actions: vec![],
            }),
            AuthRes::Profile { name, uuid, props } => Ok(Profile {
                id: Uuid::from_u128(u128::from_str_radix(uuid, 16).unwrap_or(0)),
                name: name.clone(),
                properties: props
                    .iter()
                    .map(|p| ProfileProperty {
                        name: p.name.clone(),
                        value: p.value.clone(),
                        signature: p.signature.clone(),
                    })
                    .collect(),
                profile_actions: vec![],
            }),
            AuthRes::Error => Err(sim_err()),
        };
        // a sanctioned account (the session service lists pending moderative actions): names that begin with "Sanct"
        let res = res.map(|mut p: Profile| {
            if p.name.starts_with("Sanct") {
                p.profile_actions = vec!["FORCED_NAME_CHANGE".to_string()];
            }
            p
        });
        self.sh.world.lock().unwrap().ev(
            "svc:auth",
            "done",
            json!({"i": i, "ok": res.is_ok(), "client_addr": client_addr.to_string()}),
        );
        res
    }
}

impl DiscoveryAdapter for SimDiscovery {
    async fn discover(&self) -> passage_adapters::Result<Vec<Target>> {
        let i = self.n.fetch_add(1, Ordering::SeqCst);
        let call = self.script.get(i);
        self.sh
            .world
            .lock()
            .unwrap()
            .ev("svc:discovery", "call", json!({"i": i}));
        wait(&self.sh, "discovery", i, call.lat_ns).await;
        let res = match &call.res {
            DiscRes::Targets(ts) => Ok(ts.iter().map(TargetSpec::to_target).collect::<Vec<_>>()),
            DiscRes::PerCall { n } => Ok((0..*n).map(|k| per_call_target(i as usize, k).to_target()).collect::<Vec<_>>()),
            DiscRes::Error => Err(sim_err()),
        };
        let shown = match &res {
            Ok(ts) => targets_json(ts),
            Err(_) => json!("error"),
        };
        self.sh
            .world
            .lock()
            .unwrap()
            .ev("svc:discovery", "done", json!({"i": i, "result": shown}));
        res
    }
}

/// The filter adapter handed to the code under simulation: every scripted link wrapped in the real
/// `OptionFilterAdapter`, chained through the real `impl FilterAdapter for Vec<T>`.
/// One scripted link, shared between the chain handed to the code under simulation and the harness (which re-binds
/// it to the next run's log when the adapter objects outlive a connection).
#[derive(Debug)]
pub struct Link(pub Arc<SimFilter>);

impl FilterAdapter for Link {
    async fn filter(&self, client_addr: &SocketAddr, server_addr: (&str, u16), protocol: Protocol, user: (&str, &Uuid), targets: Vec<Target>) -> passage_adapters::Result<Vec<Target>> {
        self.0.filter(client_addr, server_addr, protocol, user, targets).await
    }
}

pub type FilterChain = Vec<passage_adapters::filter::option::OptionFilterAdapter<Link>>;

/// The filter adapter handed to the code under simulation: every scripted link wrapped in the real
/// `OptionFilterAdapter`, chained through the real `impl FilterAdapter for Vec<T>`.
pub fn filter_chain(sh: &Sh, s: &Services) -> FilterChain {
    filter_chain_links(sh, s).0
}

pub fn filter_chain_links(sh: &Sh, s: &Services) -> (FilterChain, Vec<Arc<SimFilter>>) {
    use passage_adapters::filter::option::OptionFilterAdapter;
    let mut links = vec![Arc::new(SimFilter::new(sh, s.filter.clone()))];
    if let Some(f2) = &s.filter2 {
        links.push(Arc::new(SimFilter::second(sh, f2.clone())));
    }
    let chain = links
        .iter()
        .map(|l| match OptionFilterAdapter::new(s.filter_hostname.clone(), Link(l.clone())) {
            Ok(a) => a,
            Err(_) => panic!("scenario outside the domain: filter_hostname is not a regular expression"),
        })
        .collect();
    (chain, links)
}

/// The adapter objects that hold real code (`OptionFilterAdapter`, the filter chain, `FixedLocalizationAdapter`), kept
/// alive over a history of simulated connections the way a process keeps them for its whole life.
pub struct Persistent {
    pub filt: Arc<FilterChain>,
    links: Vec<Arc<SimFilter>>,
    pub loc: Arc<RecLocalization>,
}

impl Persistent {
    pub fn new(s: &Services) -> Self {
        let sh = shared(&crate::world::new_world());
        let (chain, links) = filter_chain_links(&sh, s);
        Self { filt: Arc::new(chain), links, loc: Arc::new(RecLocalization::new(&sh, &s.localization)) }
    }
    pub fn rebind(&self, sh: &Sh) {
        for link in &self.links {
            link.rebind(sh);
        }
        self.loc.rebind(sh);
    }
}

impl FilterAdapter for SimFilter {
    async fn filter(
        &self,
        client_addr: &SocketAddr,
        server_addr: (&str, u16),
        protocol: Protocol,
        user: (&str, &Uuid),
        targets: Vec<Target>,
    ) -> passage_adapters::Result<Vec<Target>> {
        let i = self.n.fetch_add(1, Ordering::SeqCst);
        let call = self.script.get(i);
        self.sh().world.lock().unwrap().ev(
            self.actor,
            "call",
            json!({"i": i, "client_addr": client_addr.to_string(), "host": server_addr.0, "port": server_addr.1,
                   "protocol": protocol, "name": user.0, "uuid": format!("{:032x}", user.1.as_u128()),
                   "targets": targets_json(&targets)}),
        );
        wait(&self.sh(), self.wname, i, call.lat_ns).await;
        let res = match &call.res {
            FiltRes::PanicIfUser { name } => {
                if user.0 == name {
                    self.sh().world.lock().unwrap().fault("backend_adapter_panics");
                    panic!("{INJECTED_PANIC}");
                }
                Ok(targets)
            }
            FiltRes::Identity => Ok(targets),
            FiltRes::Indices(ix) => Ok(ix
                .iter()
                .filter_map(|j| targets.get(*j).cloned())
                .collect::<Vec<_>>()),
            FiltRes::Targets(ts) => Ok(ts.iter().map(TargetSpec::to_target).collect()),
            FiltRes::Error => Err(sim_err()),
        };
        let shown = match &res {
            Ok(ts) => targets_json(ts),
            Err(_) => json!("error"),
        };
        self.sh()
            .world
            .lock()
            .unwrap()
            .ev(self.actor, "done", json!({"i": i, "result": shown}));
        res
    }
}

impl StrategyAdapter for SimStrategy {
    async fn select(
        &self,
        client_addr: &SocketAddr,
        server_addr: (&str, u16),
        protocol: Protocol,
        user: (&str, &Uuid),
        targets: Vec<Target>,
    ) -> passage_adapters::Result<Option<Target>> {
        let i = self.n.fetch_add(1, Ordering::SeqCst);
        let call = self.script.get(i);
        self.sh.world.lock().unwrap().ev(
            "svc:strategy",
            "call",
            json!({"i": i, "client_addr": client_addr.to_string(), "host": server_addr.0, "port": server_addr.1,
                   "protocol": protocol, "name": user.0, "uuid": format!("{:032x}", user.1.as_u128()),
                   "targets": targets_json(&targets)}),
        );
        wait(&self.sh, "strategy", i, call.lat_ns).await;
        let res = match &call.res {
            StratRes::First => Ok(targets.first().cloned()),
            StratRes::ByUser => Ok(if targets.is_empty() { None } else { targets.get((user.1.as_u128() % targets.len() as u128) as usize).cloned() }),
            StratRes::Index(j) => Ok(targets.get(*j).cloned()),
            StratRes::Target(t) => Ok(Some(t.to_target())),
            StratRes::None => Ok(None),
            StratRes::Error => Err(sim_err()),
        };
        let shown = match &res {
            Ok(Some(t)) => serde_json::to_value(TargetSpec::from_target(t)).unwrap(),
            Ok(None) => Value::Null,
            Err(_) => json!("error"),
        };
        self.sh.world.lock().unwrap().ev(
            "svc:strategy",
            "done",
            json!({"i": i, "result": shown, "client_addr": client_addr.to_string()}),
        );
        res
    }
}

/// The real `FixedLocalizationAdapter` behind a recorder.
pub struct RecLocalization {
    pub sh: Mutex<Sh>,
    pub inner: FixedLocalizationAdapter,
    pub timeout_lat_ns: u64,
}

impl std::fmt::Debug for RecLocalization {
    fn fmt(&self, f: &mut std::fmt::Formatter<'_>) -> std::fmt::Result {
        write!(f, "RecLocalization")
    }
}

impl RecLocalization {
    pub fn new(sh: &Sh, spec: &LocSpec) -> Self {
        let messages: HashMap<String, HashMap<String, String>> = spec
            .messages
            .iter()
            .map(|(k, v)| (k.clone(), v.clone().into_iter().collect()))
            .collect();
        Self {
            sh: Mutex::new(sh.clone()),
            inner: FixedLocalizationAdapter::new(spec.default_locale.clone(), messages),
            timeout_lat_ns: spec.timeout_lat_ns,
        }
    }
    pub fn rebind(&self, sh: &Sh) {
        *self.sh.lock().unwrap() = sh.clone();
    }
}

impl LocalizationAdapter for RecLocalization {
    async fn localize(
        &self,
        locale: Option<&str>,
        key: &str,
        params: &[(&'static str, String)],
    ) -> passage_adapters::Result<String> {
        if self.timeout_lat_ns > 0 && key == "disconnect_timeout" {
            let sh = self.sh.lock().unwrap().clone();
            sh.world.lock().unwrap().ev("svc:localization", "start", json!({"key": key}));
            sh.world.lock().unwrap().fault("slow_localization");
            tokio::time::sleep(Duration::from_nanos(self.timeout_lat_ns)).await;
        }
        let out = self.inner.localize(locale, key, params).await;
        let sh = self.sh.lock().unwrap().clone();
        sh.world.lock().unwrap().ev(
            "svc:localization",
            "call",
            json!({"locale": locale, "key": key, "result": out.as_ref().ok()}),
        );
        out
    }
}
