//! Net-sim: the real `Listener` (or `passage::start(config)`) on the in-memory network of hook H1,
//! many simulated clients, an optional stop signal, all on one paused runtime. A single driver
//! executes the connect / stop events in a total order so that exact ties are decided by the
//! scenario, not by timer-wheel internals.

use crate::alloc;
use crate::client::{ClientSpec, ClientView, run_client};
use crate::conn::{Wall, install_wall};
use crate::pipe::{St, WRule, pipe};
use crate::rng::Fnv;
use crate::services::{RecLocalization, Services, SimAuth, SimDiscovery, SimStatus, SimStrategy, shared};
use crate::world::{Event, hexopt, new_world};
use passage_protocol::listener::{Listener, ParseConfig};
use passage_protocol::rate_limiter::RateLimiter;
use passage_protocol::verif::net as vnet;
use serde::{Deserialize, Serialize};
use serde_json::json;
use std::cell::RefCell;
use std::collections::BTreeMap;
use std::net::{IpAddr, SocketAddr};
use std::rc::Rc;
use std::sync::Arc;
use std::time::Duration;
use tokio_util::sync::CancellationToken;

pub const LISTEN_ADDR: &str = "127.0.0.1:25565";

#[derive(Clone, Debug, Serialize, Deserialize, PartialEq)]
pub struct NetCfg {
    #[serde(with = "hexopt")]
    pub secret: Option<Vec<u8>>,
    pub expiry: Option<u64>,
    pub max_frame: Option<i32>,
    pub timeout_ns: u64,
    /// (allow_v1, allow_v2)
    pub proxy: Option<(bool, bool)>,
    /// (duration ns, limit)
    pub limiter: Option<(u64, usize)>,
    /// run `passage::start(config)` with built-in adapters instead of a `Listener` with sim services
    #[serde(default)]
    pub use_start: bool,
    /// (with `use_start`) discovery is the Agones adapter, watching a simulated Kubernetes API server that
    /// holds one Ready GameServer at the first scripted target's address
    #[serde(default)]
    pub agones: bool,
    /// (with `use_start`) the secret reaches the application the way an operator gives it: through the environment
    /// variable (0) or the secret file (1) and `Config::read()`; the index names the entry of `SECRET_SOURCES`,
    /// and `secret` holds what the operator wrote
    #[serde(default)]
    pub secret_source: Option<(u8, usize)>,
    /// (with `use_start`) the localization tables of `services.localization` are put into the configuration
    /// (otherwise the application's shipped defaults apply)
    #[serde(default)]
    pub localization_from_services: bool,
}

impl Default for NetCfg {
    fn default() -> Self {
        Self {
            secret: None,
            expiry: None,
            max_frame: None,
            timeout_ns: 120_000_000_000,
            proxy: None,
            limiter: None,
            use_start: false,
            agones: false,
            secret_source: None,
            localization_from_services: false,
        }
    }
}

#[derive(Clone, Debug, Serialize, Deserialize, PartialEq)]
pub struct NetClient {
    pub connect_at_ns: u64,
    pub peer: String,
    pub spec: ClientSpec,
    #[serde(default)]
    pub wplan: Vec<WRule>,
}

#[derive(Clone, Debug, Serialize, Deserialize, PartialEq)]
pub struct NetScenario {
    pub seed: u64,
    pub cfg: NetCfg,
    #[serde(default)]
    pub wall: Wall,
    pub services: Services,
    pub clients: Vec<NetClient>,
    /// virtual time of the stop signal; events at the same instant are ordered by `stop_before`
    #[serde(default)]
    pub stop_at_ns: Option<u64>,
    /// at an exact tie the stop is issued before (true) or after (false) the connects of that instant
    #[serde(default)]
    pub stop_before: bool,
    /// how often the driver lets the ready tasks run (in the runtime's FIFO order) between the connects of the stop's
    /// instant and the stop call itself: with 1 the listener accepts what is queued, but the tasks it spawned
    /// have not run yet when the stop comes
    #[serde(default)]
    pub yields_before_stop: u8,
    /// the `Listener` value has been run once before (started and stopped while idle) when the scenario begins
    #[serde(default)]
    pub relisten: bool,
    pub cap_ns: u64,
}

#[derive(Clone, Debug, Serialize, Deserialize, PartialEq)]
pub struct NetClientOutcome {
    pub view: ClientView,
    pub connected_ns: Option<u64>,
    pub refused: bool,
    pub accepted_ns: Option<u64>,
    /// the listener had taken this connection from the accept queue when the stop was called
    #[serde(default)]
    pub accepted_before_stop_call: bool,
    pub closed_ns: Option<u64>,
    /// when the server let go of its end altogether (the socket object was dropped: both directions closed)
    #[serde(default)]
    pub released_ns: Option<u64>,
    pub rx_total: u64,
    pub avail: Vec<(u64, u64)>,
    pub finished: bool,
}

#[derive(Clone, Debug, Serialize, Deserialize, PartialEq)]
pub struct NetOutcome {
    pub log: Vec<Event>,
    pub clients: Vec<NetClientOutcome>,
    pub stop_ns: Option<u64>,
    pub listen_returned_ns: Option<u64>,
    pub listen_result: String,
    pub faults: BTreeMap<String, u64>,
    pub probes: BTreeMap<String, u64>,
    pub panics: Vec<String>,
    pub end_ns: u64,
}

impl NetOutcome {
    pub fn trace_hash(&self) -> u64 {
        let mut h = Fnv::default();
        for e in &self.log {
            h.write_str(&e.actor);
            h.write_str(&e.kind);
            if let Some(k) = e.detail.get("kind").and_then(|k| k.as_str()) {
                h.write_str(k);
            }
        }
        h.0
    }
    pub fn full_hash(&self) -> u64 {
        let mut h = Fnv::default();
        for e in &self.log {
            h.write_u64(e.t_ns);
            h.write_str(&e.actor);
            h.write_str(&e.kind);
            h.write_str(&e.detail.to_string());
        }
        for c in &self.clients {
            h.write_u64(c.accepted_ns.unwrap_or(u64::MAX));
            h.write_u64(c.closed_ns.unwrap_or(u64::MAX));
            for p in &c.view.packets {
                h.write_u64(p.t_ns);
                h.write_str(&p.kind);
            }
        }
        h.write_u64(self.listen_returned_ns.unwrap_or(u64::MAX));
        h.0
    }
}

/// Secrets as operators write them (environment variable or secret file).
pub const SECRET_SOURCES: &[&str] = &["s3cret", "004815162342", "1e3", "TRUE", "false", " 12 ", "0x10", "1_000", "-0", "null", "a,b", "secret\n", "12345678901234567890", "1.50"];

static LOADED: std::sync::OnceLock<Vec<[Option<String>; 2]>> = std::sync::OnceLock::new();

/// Runs the application's configuration loader once per secret and source. Must be called at process start,
/// before any other thread exists (it sets environment variables).
pub fn preload_secrets() {
    let file = std::env::temp_dir().join(format!("verif-auth-secret-{}", std::process::id()));
    let mut out = vec![];
    for raw in SECRET_SOURCES {
        let mut pair: [Option<String>; 2] = [None, None];
        // SAFETY: single-threaded at this point
        unsafe {
            std::env::set_var("CONFIG_FILE", "/nonexistent/verif-config");
            std::env::set_var("AUTH_SECRET_FILE", "/nonexistent/verif-secret");
            std::env::set_var("PASSAGE_AUTHSECRET", raw);
        }
        pair[0] = passage::config::Config::read().ok().and_then(|c| c.auth_secret);
        unsafe {
            std::env::remove_var("PASSAGE_AUTHSECRET");
        }
        if std::fs::write(&file, raw).is_ok() {
            unsafe {
                std::env::set_var("AUTH_SECRET_FILE", &file);
            }
            pair[1] = passage::config::Config::read().ok().and_then(|c| c.auth_secret);
        }
        out.push(pair);
    }
    unsafe {
        std::env::remove_var("CONFIG_FILE");
        std::env::remove_var("AUTH_SECRET_FILE");
    }
    let _ = std::fs::remove_file(&file);
    let _ = LOADED.set(out);
}

pub fn loaded_secret(kind: u8, idx: usize) -> Option<String> {
    LOADED.get().and_then(|v| v.get(idx)).and_then(|p| p.get(kind as usize).cloned().flatten())
}

fn build_start_config(sc: &NetScenario) -> passage::config::Config {
    use passage::config as pc;
    let mut c = pc::Config::default();
    c.address = LISTEN_ADDR.to_string();
    c.timeout = sc.cfg.timeout_ns / 1_000_000_000;
    if let Some(m) = sc.cfg.max_frame {
        c.max_packet_length = m as u64;
    }
    if let Some(e) = sc.cfg.expiry {
        c.auth_cookie_expiry = e;
    }
    c.auth_secret = match sc.cfg.secret_source {
        // what the application's own configuration loader made of the operator's text (read once at process start)
        Some((kind, idx)) => loaded_secret(kind, idx),
        None => sc.cfg.secret.as_ref().map(|s| String::from_utf8_lossy(s).to_string()),
    };
    c.rate_limiter = sc.cfg.limiter.map(|(d, l)| pc::RateLimiter { duration: d / 1_000_000_000, limit: l });
    c.proxy_protocol = sc.cfg.proxy.map(|(v1, v2)| pc::ProxyProtocol { allow_v1: v1, allow_v2: v2 });
    // built-in adapters mirroring the scripted defaults as far as they can
    c.adapters.status = pc::StatusAdapter::Fixed(pc::FixedStatus { favicon: None, ..Default::default() });
    let targets = match &sc.services.discovery.default.res {
        crate::services::DiscRes::Targets(ts) => ts.iter().map(|t| t.to_target()).collect(),
        _ => vec![],
    };
    c.adapters.discovery = if sc.cfg.agones {
        pc::DiscoveryAdapter::Agones(pc::AgonesDiscovery { namespace: Some("default".to_string()), ..Default::default() })
    } else {
        pc::DiscoveryAdapter::Fixed(pc::FixedDiscovery { targets })
    };
    if sc.cfg.localization_from_services {
        let l = &sc.services.localization;
        c.adapters.localization = pc::LocalizationAdapter::Fixed(pc::FixedLocalization {
            default_locale: l.default_locale.clone(),
            messages: l.messages.iter().map(|(k, t)| (k.clone(), t.iter().map(|(a, b)| (a.clone(), b.clone())).collect())).collect(),
        });
    }
    c.adapters.filter = vec![];
    c.adapters.strategy = pc::StrategyAdapter::Any;
    let profile = match &sc.services.auth.default.res {
        crate::services::AuthRes::Profile { name, uuid, .. } => passage_adapters::authentication::Profile {
            id: uuid::Uuid::from_u128(u128::from_str_radix(uuid, 16).unwrap_or(0)),
            name: name.clone(),
            properties: vec![],
            profile_actions: vec![],
        },
        _ => passage_adapters::authentication::Profile {
            id: uuid::Uuid::from_u128(0xfeed),
            name: "FixedProfile".into(),
            properties: vec![],
            profile_actions: vec![],
        },
    };
    c.adapters.authentication = pc::AuthenticationAdapter::Fixed(pc::FixedAuthentication { profile });
    c
}

pub fn run_net(sc: &NetScenario) -> NetOutcome {
    crate::conn::seed_thread(sc.seed);
    let mut b = tokio::runtime::Builder::new_current_thread();
    if sc.cfg.use_start {
        b.enable_all();
    } else {
        b.enable_time();
    }
    let rt = b
        .start_paused(true)
        .rng_seed(tokio::runtime::RngSeed::from_bytes(&sc.seed.to_le_bytes()))
        .build()
        .expect("runtime");
    let _ = alloc::take_panics();
    vnet::reset();
    passage_protocol::verif::rt::signal::reset();
    let local = tokio::task::LocalSet::new();
    let out = local.block_on(&rt, run_net_async(sc));
    passage_protocol::verif::clock::set_wall(None);
    passage_adapters_agones::verif::set_client(None);
    vnet::reset();
    drop(local);
    drop(rt);
    if std::env::var("VERIF_DUMP").is_ok() {
        eprintln!("--- net run stop={:?} listen_returned={:?} {} end={}", out.stop_ns, out.listen_returned_ns, out.listen_result, out.end_ns);
        for e in &out.log {
            let d = e.detail.to_string();
            eprintln!("  {:>4} {:>15} {:<16} {:<10} {}", e.seq, e.t_ns, e.actor, e.kind, &d[..d.len().min(140)]);
        }
        for (i, c) in out.clients.iter().enumerate() {
            eprintln!("  client {i}: connected={:?} refused={} accepted={:?} closed={:?} rx={} kinds={:?} eof={:?}", c.connected_ns, c.refused, c.accepted_ns, c.closed_ns, c.rx_total, c.view.kinds(), c.view.eof_ns);
        }
        eprintln!("  faults={:?} probes={:?} panics={:?}", out.faults, out.probes, out.panics);
    }
    out
}

struct Slot {
    view: Option<ClientView>,
    st: Option<St>,
    connected_ns: Option<u64>,
    refused: bool,
}

async fn run_net_async(sc: &NetScenario) -> NetOutcome {
    let world = new_world();
    install_wall(&world, &sc.wall);
    let sh = shared(&world);
    let addr: SocketAddr = LISTEN_ADDR.parse().unwrap();
    let stop = CancellationToken::new();
    let listen_done: Rc<RefCell<Option<(u64, String)>>> = Rc::new(RefCell::new(None));

    // the system under simulation
    let ld = listen_done.clone();
    let w2 = world.clone();
    if sc.cfg.use_start && sc.cfg.agones {
        // the Kubernetes API server the Agones adapter will list and watch (hook H4 hands its client out)
        let api: crate::apisim::Api = Arc::new(std::sync::Mutex::new(crate::apisim::ApiState::default()));
        let addr: SocketAddr = match &sc.services.discovery.default.res {
            crate::services::DiscRes::Targets(ts) if !ts.is_empty() => ts[0].addr.parse().unwrap_or_else(|_| "10.9.8.7:25565".parse().unwrap()),
            _ => "10.9.8.7:25565".parse().unwrap(),
        };
        let gs = crate::props::c20::Gs { name: "gs-a".into(), state: "Ready".into(), address: Some(addr.ip().to_string()), ports: vec![addr.port()], counters: Default::default(), lists: Default::default(), labels: Default::default(), annotations: Default::default() };
        api.lock().unwrap().apply("gs-a", gs.to_json());
        let t0 = world.lock().unwrap().t0;
        let now_ns = move || tokio::time::Instant::now().saturating_duration_since(t0).as_nanos() as u64;
        let service = tower::service_fn(move |req: http::Request<kube::client::Body>| crate::apisim::handle(api.clone(), req, now_ns));
        passage_adapters_agones::verif::set_client(Some(kube::Client::new(service, "default")));
    }
    let listener_task = if sc.cfg.use_start {
        let config = build_start_config(sc);
        tokio::task::spawn_local(async move {
            let r = passage::start(config).await;
            let s = match r {
                Ok(()) => "Ok".to_string(),
                Err(e) => format!("Err({e})"),
            };
            let t = w2.lock().unwrap().now_ns();
            w2.lock().unwrap().ev("listener", "returned", json!({"result": s}));
            *ld.borrow_mut() = Some((t, s));
        })
    } else {
        let status = Arc::new(SimStatus::new(&sh, sc.services.status.clone()));
        let auth = Arc::new(SimAuth::new(&sh, sc.services.auth.clone()));
        let disc = Arc::new(SimDiscovery::new(&sh, sc.services.discovery.clone()));
        let filt = Arc::new(crate::services::filter_chain(&sh, &sc.services));
        let strat = Arc::new(SimStrategy::new(&sh, sc.services.strategy.clone()));
        let loc = Arc::new(RecLocalization::new(&sh, &sc.services.localization));
        let mut listener = Listener::new(status, disc, filt, strat, auth, loc)
            .with_rate_limiter(sc.cfg.limiter.map(|(d, l)| RateLimiter::<IpAddr>::new(Duration::from_nanos(d), l)))
            .with_proxy_protocol(sc.cfg.proxy.map(|(v1, v2)| ParseConfig { include_tlvs: false, allow_v1: v1, allow_v2: v2 }))
            .with_connection_timeout(Duration::from_nanos(sc.cfg.timeout_ns))
            .with_auth_secret(sc.cfg.secret.clone());
        if let Some(m) = sc.cfg.max_frame {
            listener = listener.with_max_packet_length(m);
        }
        if let Some(e) = sc.cfg.expiry {
            listener = listener.with_auth_cookie_expiry(e);
        }
        let stop2 = stop.clone();
        let relisten = sc.relisten;
        tokio::task::spawn_local(async move {
            if relisten {
                // an earlier, idle run of the same listener value: started and stopped at once
                let pre = CancellationToken::new();
                pre.cancel();
                let _ = listener.listen(addr, pre).await;
            }
            let r = listener.listen(addr, stop2).await;
            let s = match r {
                Ok(()) => "Ok".to_string(),
                Err(e) => format!("Err({e})"),
            };
            let t = w2.lock().unwrap().now_ns();
            w2.lock().unwrap().ev("listener", "returned", json!({"result": s}));
            *ld.borrow_mut() = Some((t, s));
        })
    };
    // let it bind
    for _ in 0..50 {
        if vnet::is_bound(&addr) {
            break;
        }
        tokio::task::yield_now().await;
    }

    let slots: Rc<RefCell<Vec<Slot>>> = Rc::new(RefCell::new(
        sc.clients.iter().map(|_| Slot { view: None, st: None, connected_ns: None, refused: false }).collect(),
    ));
    // total order of driver events: (time, rank, index); stop ranks before or after the connects of its instant
    let mut events: Vec<(u64, u8, usize)> = sc.clients.iter().enumerate().map(|(i, c)| (c.connect_at_ns, 1u8, i)).collect();
    if let Some(t) = sc.stop_at_ns {
        events.push((t, if sc.stop_before { 0 } else { 2 }, usize::MAX));
    }
    events.sort();
    let mut client_tasks = vec![];
    let mut pre_stop_accepts: Vec<(tokio::time::Instant, SocketAddr)> = vec![];
    let mut stop_ns = None;
    let t0 = world.lock().unwrap().t0;
    for (t, _, idx) in events {
        if t > sc.cap_ns {
            break;
        }
        tokio::time::sleep_until(t0 + Duration::from_nanos(t)).await;
        if idx == usize::MAX {
            // 1: the stop is called by a task queued behind whatever the connects of this instant woke (the
            // listener accepts, but the connection tasks it spawns on the runtime have not been polled yet);
            // 2 and more: everything that is ready gets to run that many rounds first
            for _ in 1..sc.yields_before_stop {
                tokio::task::yield_now().await;
            }
            let (w3, stop3, use_start) = (world.clone(), stop.clone(), sc.cfg.use_start);
            let call = move || {
                let log = vnet::take_accept_log();
                w3.lock().unwrap().ev("driver", "stop", json!({}));
                if use_start {
                    // the application's own stop signal: the (simulated) interrupt
                    passage_protocol::verif::rt::signal::raise();
                } else {
                    stop3.cancel();
                }
                log
            };
            pre_stop_accepts = if sc.yields_before_stop >= 1 { tokio::task::spawn_local(async move { call() }).await.unwrap_or_default() } else { call() };
            stop_ns = Some(world.lock().unwrap().now_ns());
            continue;
        }
        let c = sc.clients[idx].clone();
        let (server_end, client_end) = pipe(&world, &format!("c{idx}"), c.wplan.clone());
        sh.pipes.lock().unwrap().push(client_end.st.clone());
        let peer: SocketAddr = c.peer.parse().expect("peer addr");
        let now = world.lock().unwrap().now_ns();
        {
            let mut s = slots.borrow_mut();
            s[idx].st = Some(client_end.st.clone());
            s[idx].connected_ns = Some(now);
        }
        world.lock().unwrap().ev(&format!("c{idx}"), "connect", json!({"peer": c.peer}));
        if vnet::connect(&addr, peer, Box::new(server_end)).is_err() {
            slots.borrow_mut()[idx].refused = true;
            world.lock().unwrap().ev(&format!("c{idx}"), "refused", json!({}));
            continue;
        }
        let slots2 = slots.clone();
        let cap = sc.cap_ns;
        client_tasks.push(tokio::task::spawn_local(async move {
            let view = run_client(&c.spec, &client_end, cap).await;
            slots2.borrow_mut()[idx].view = Some(view);
        }));
    }
    // wait for the clients (each ends at the server's EOF or at the cap)
    for t in client_tasks {
        let _ = t.await;
    }
    // and, if a stop was requested, for the listener to return (bounded by the cap)
    if stop_ns.is_some() {
        let left = sc.cap_ns.saturating_sub(world.lock().unwrap().now_ns());
        let _ = tokio::time::timeout(Duration::from_nanos(left.max(1)), async {
            while listen_done.borrow().is_none() {
                tokio::time::sleep(Duration::from_millis(1)).await;
            }
        })
        .await;
    }
    listener_task.abort();
    let _ = listener_task.await;
    let before_stop: Vec<SocketAddr> = pre_stop_accepts.iter().map(|(_, p)| *p).collect();
    let mut accept_log = pre_stop_accepts;
    accept_log.extend(vnet::take_accept_log());
    let w = world.lock().unwrap();
    let t0 = w.t0;
    let mut clients = vec![];
    for (i, s) in slots.borrow_mut().iter_mut().enumerate() {
        let peer: SocketAddr = sc.clients[i].peer.parse().unwrap();
        let accepted_ns = accept_log.iter().find(|(_, p)| *p == peer).map(|(t, _)| t.saturating_duration_since(t0).as_nanos() as u64);
        let released_ns = s.st.as_ref().and_then(|st| st.lock().unwrap().dropped_ns);
        let (closed_ns, rx_total, avail) = match &s.st {
            Some(st) => {
                let mut st = st.lock().unwrap();
                st.resolve_rest(&w.signals);
                (
                    match (st.shutdown_ns, st.dropped_ns) {
                        (Some(a), Some(b)) => Some(a.min(b)),
                        (a, b) => a.or(b),
                    },
                    st.out.iter().map(|c| c.1.len() as u64).sum(),
                    st.avail.clone(),
                )
            }
            None => (None, 0, vec![]),
        };
        let finished = s.view.is_some();
        clients.push(NetClientOutcome {
            view: s.view.take().unwrap_or_default(),
            connected_ns: s.connected_ns,
            refused: s.refused,
            accepted_ns,
            accepted_before_stop_call: before_stop.contains(&peer),
            closed_ns,
            released_ns,
            rx_total,
            avail,
            finished,
        });
    }
    let ld = listen_done.borrow().clone();
    NetOutcome {
        log: w.log.clone(),
        clients,
        stop_ns,
        listen_returned_ns: ld.as_ref().map(|x| x.0),
        listen_result: ld.map(|x| x.1).unwrap_or_else(|| "Running".into()),
        faults: w.faults.clone(),
        probes: w.probes.clone(),
        panics: alloc::take_panics(),
        end_ns: w.now_ns(),
    }
}
