//! C04 - no client input can crash the handler or make it allocate unboundedly.
//! Honest transcripts with exactly one frame mutated (enumerated by run index), optionally under
//! segmentation, against the real Connection; a panic hook, a counting allocator and the pipe's
//! after-EOF poll counter are the observation points.

use super::common::*;
use crate::client::{ClientSpec, Cut, EncVariant, MutOp, Mutation};
use crate::conn::{ConnCfg, ConnOutcome, ConnScenario, Wall, run_conn};
use crate::pipe::{Gate, PipeState};
use crate::rng::Rng;
use crate::runner::{Check, RunReport, Tier};
use crate::services::{DiscRes, Script, Services};
use serde_json::{Value, json};

pub struct C04;

fn base(rng: &mut Rng, b: u64) -> ConnScenario {
    let intent = match b % 4 {
        0 => 1,
        1 => 2,
        _ => 3,
    };
    let secret = if b % 4 >= 2 { Some(b"0123456789abcdef".to_vec()) } else { None };
    let client_addr = "203.0.113.9:50000".to_string();
    let mut client = ClientSpec::base(rng, intent);
    client.name = "Steve".into();
    client.uuid = format!("{:032x}", 0x1234_5678_9abc_def0_1122_3344_5566_7788u128);
    client.locale = "de_DE".into();
    if b % 4 == 3 {
        // transfer with a valid cookie
        let id = Identity { name: "CookieUser".into(), uuid: 77, props: vec![] };
        let body = cookie_json(Wall::default().base_s - 5, &client_addr, &id, Some("t"));
        client.auth_cookie = Some(signed_cookie(secret.as_ref().unwrap(), &body));
        // (the session cookie is unsigned, client-chosen JSON: trace ids of any length and alphabet, e.g. the 55 bytes of a W3C traceparent)
        let trace: Value = match rng.below(8) {
            0 => json!(""),
            1 => json!("x"),
            2 => json!("4bf92f3577b34da6a3ce929d0e0e4736"),
            3 => json!("00-4bf92f3577b34da6a3ce929d0e0e4736-00f067aa0ba902b7-01"),
            4 => json!(format!("00\u{e9}{}", "a".repeat(51))),
            5 => json!(format!("{}\u{65e5}{}", "0".repeat(33), "b".repeat(19))),
            6 => json!("t".repeat(1000)),
            _ => Value::Null,
        };
        client.session_cookie = Some(serde_json::to_vec(&json!({"id": uuid_hyph(9), "server_address": "h", "server_port": 1, "trace_id": trace})).unwrap());
    }
    // a couple of ignorable configuration packets so that the configuration phase has frames to mutate
    client.info_delay_ns = ms(20);
    client.info = gen_info(rng);
    client.extras.push(crate::client::Extra { after_ack: true, at_ns: ms(5), id: 0x02, body: crate::client::Body::Raw { bytes: b"minecraft:brand\x07vanilla".to_vec() } });
    client.extras.push(crate::client::Extra { after_ack: true, at_ns: ms(10), id: 0x06, body: crate::client::Body::ResourcePack { result: 3 } });
    // a serverbound Keep Alive nobody asked for, with an id at the edge of the value range
    if rng.chance(1, 3) {
        client.extras.push(crate::client::Extra { after_ack: true, at_ns: ms(7), id: 0x04, body: crate::client::Body::KeepAlive { id: crate::client::KaId::Fixed(*rng.pick(&[u64::MAX, 1u64 << 63, 0, i64::MAX as u64, 1u64 << 32])) } });
    }
    // sometimes there is no target, so that the localized Disconnect path runs with whatever locale the client sent
    let targets = if rng.chance(1, 3) { vec![] } else { vec![crate::services::TargetSpec { id: "t".into(), addr: "10.0.0.5:25565".into(), meta: Default::default() }] };
    let services = Services {
        // (sometimes the lookup takes a while, so that a connection can end while it is in flight)
        discovery: Script::always(Some(*rng.pick(&[0u64, 0, 0, ms(40), secs(3)])), DiscRes::Targets(targets)),
        ..Default::default()
    };
    // odd but well-formed locales
    client.locale = (*rng.pick(&["de_DE", "de_DE", "", "x", "日本", "en_US_POSIX_and_more", "_US", "_", "de_", "fil_ph", "日本_JP", "abcdefghijklmno\u{e9}xyz", "日本語日本語日本"])).to_string();
    ConnScenario {
        seed: rng.next_u64(),
        cfg: ConnCfg { secret, expiry: None, max_frame: None, client_addr },
        wall: Wall::default(),
        services,
        client,
        wplan: vec![],
        cap_ns: secs(120),
        prelude: vec![],
        growth: None,
    }
}

const SPLICE_VALUES: &[&[u8]] = &[
    &[0xff, 0xff, 0xff, 0xff, 0x0f],       // VarInt -1
    &[0xff, 0xff, 0xff, 0xff, 0x07],       // VarInt 2^31-1
    &[0x80, 0x80, 0x80, 0x80, 0x08],       // VarInt -2^31
    &[0x80, 0x80, 0x80, 0x80, 0x00],       // over-long zero
    &[0xff, 0xff, 0xff, 0xff, 0xff, 0x01], // six-byte VarInt
    &[0x00],
    &[0x7f],
    &[0x80],
    &[0xff],
    &[0xc3, 0x28], // invalid UTF-8
];

/// five-byte length prefixes whose last byte still has the continuation bit: a VarInt has at most
/// five bytes, so the length is known (and illegal: 0, negative or huge) once they are there
const RAW_PREFIX: &[&[u8]] = &[&[0x80, 0x80, 0x80, 0x80, 0x80], &[0xff, 0xff, 0xff, 0xff, 0xff], &[0x81, 0x80, 0x80, 0x80, 0xf0], &[0xff, 0xff, 0xff, 0xff, 0x8f]];

const OUTER: &[i32] = &[-1, 0, i32::MIN, i32::MAX, 2_097_152];

fn generate(rng: &mut Rng, index: u64) -> ConnScenario {
    let b = index % 4;
    let mut sc = base(rng, b);
    sc.cfg.max_frame = *rng.pick(&[None, None, Some(300), Some(1024), Some(100_000)]);
    let refo = run_conn(&sc);
    let frames = refo.view.sent.clone();
    if frames.is_empty() {
        return sc;
    }
    let max = sc.cfg.max_frame.unwrap_or(10_000);
    // the mutation menu over all frames, enumerated by index
    let mut menu: Vec<(usize, u8, u64)> = vec![]; // (frame, class, parameter)
    for (fi, f) in frames.iter().enumerate() {
        let len = f.end - f.start;
        for k in 0..OUTER.len() as u64 + 7 {
            menu.push((fi, 0, k));
        }
        for k in 0..len {
            menu.push((fi, 1, k)); // truncate at k, then EOF
        }
        for o in 0..len.saturating_sub(1) {
            for v in 0..SPLICE_VALUES.len() as u64 {
                menu.push((fi, 2, o * 16 + v));
            }
        }
        for k in 0..4 {
            menu.push((fi, 3, k)); // junk appended after the frame
        }
        for k in 0..RAW_PREFIX.len() as u64 {
            menu.push((fi, 8, k)); // raw over-long length prefix, then the client keeps streaming
        }
        menu.push((fi, 4, 0)); // bit flip on the wire
        for k in 0..3 {
            menu.push((fi, 9, k)); // a really over-long frame (content padded), delivered whole in one segment
        }
    }
    for v in 0..16 {
        menu.push((0, 5, v)); // Encryption Response variants
    }
    for w in 0..8 {
        menu.push((0, 6, w)); // the transport breaks on the w-th server write
    }
    for fi in 0..frames.len() {
        menu.push((fi, 7, 0)); // the client resets the connection right after this frame
    }
    if let Some(fi) = frames.iter().position(|f| f.kind == "Extra") {
        for k in 0..12 {
            menu.push((fi, 11, k)); // a legal frame (plugin message) whose length is at / just below the configured maximum
        }
    }
    for (fi, f) in frames.iter().enumerate() {
        if matches!(f.kind.as_str(), "Extra" | "ClientInfo" | "LoginAck") {
            for k in 1..4u64.min(f.end - f.start) {
                menu.push((fi, 12, k)); // the first k bytes of the frame (k = 1: nothing but its length prefix), then silence until the keep-alive timeout
            }
        }
    }
    for k in 0..48 {
        menu.push((0, 10, k)); // a long run of valid ignorable frames in one burst while the server waits for Client Information
    }
    let (fi, class, par) = menu[((index / 4) % menu.len() as u64) as usize];
    let f = &frames[fi];
    let len = (f.end - f.start) as usize;
    match class {
        0 => {
            let v = match par as usize {
                k if k < OUTER.len() => OUTER[k],
                k if k == OUTER.len() => max,
                k if k == OUTER.len() + 1 => max + 1,
                k if k == OUTER.len() + 2 => len as i32, // one more than the real body (prefix included)
                // the real length with a high bit on top (a four- or five-byte prefix whose low bits look harmless)
                k if k >= OUTER.len() + 4 => {
                    let real = (1..=3usize).filter(|p| len > *p).map(|p| (len - p) as i32).find(|l| len == *l as usize + crate::codec::varint(*l).len()).unwrap_or(1);
                    [1i32 << 21, 1 << 28, 1 << 30][k - OUTER.len() - 4] + real
                }
                _ => (len as i32 - 2).max(1),
            };
            sc.client.mutations.push(Mutation { frame: fi, op: MutOp::OuterLen { v } });
            // deliver only the new length prefix first; the body follows 10 s later
            let plen = crate::codec::varint(v).len() as u64;
            sc.client.cuts.push(Cut { at: f.start + plen, gate: Gate::Delay { ns: secs(10) }, spurious: 0 });
        }
        1 => {
            sc.client.mutations.push(Mutation { frame: fi, op: MutOp::Truncate { keep: par as usize } });
            sc.client.close_after = Some((fi + 1, rng.chance(1, 4)));
        }
        2 => {
            let off = (par / 16) as usize;
            let v = SPLICE_VALUES[(par % 16) as usize % SPLICE_VALUES.len()];
            sc.client.mutations.push(Mutation { frame: fi, op: MutOp::Splice { off, del: 1, bytes: v.to_vec(), fix_len: true } });
            if rng.chance(1, 2) {
                sc.client.close_after = Some((fi + 1, false));
            }
        }
        3 => {
            let n = *rng.pick(&[1usize, 3, 17, 300]);
            sc.client.mutations.push(Mutation { frame: fi, op: MutOp::Append { bytes: rng.bytes(n) } });
            if rng.chance(1, 2) {
                sc.client.close_after = Some((fi + 1, false));
            }
        }
        4 => {
            sc.client.mutations.push(Mutation { frame: fi, op: MutOp::WireFlip { off: rng.usize_below(len), bit: rng.below(8) as u8 } });
        }
        8 => {
            sc.client.mutations.push(Mutation { frame: fi, op: MutOp::OuterRaw { bytes: RAW_PREFIX[par as usize].to_vec() } });
            // the prefix alone first; then the client keeps streaming a lot more
            let flood = *rng.pick(&[100usize, 20_000, 300_000]);
            sc.client.mutations.push(Mutation { frame: fi, op: MutOp::Append { bytes: rng.bytes(flood) } });
            sc.client.cuts.push(Cut { at: f.start + 5, gate: Gate::Delay { ns: secs(10) }, spurious: 0 });
        }
        9 => {
            let total = max as usize + [1usize, 2, 40][par as usize % 3];
            sc.client.mutations.push(Mutation { frame: fi, op: MutOp::PadTo { total } });
        }
        11 => {
            let total = (max as usize).saturating_sub([0usize, 1, 2, 3][par as usize % 4]).max(40);
            sc.client.mutations.push(Mutation { frame: fi, op: MutOp::PadTo { total } });
            match par / 4 {
                0 => {}
                1 => {
                    // in pieces
                    for _ in 0..rng.range(1, 5) {
                        sc.client.cuts.push(Cut { at: f.start + rng.below(total as u64), gate: if rng.chance(1, 2) { Gate::Now } else { Gate::Delay { ns: ms(1) } }, spurious: rng.below(2) as u8 });
                    }
                }
                _ => sc.client.close_after = Some((fi + 1, false)),
            }
        }
        12 => {
            sc.client.mutations.push(Mutation { frame: fi, op: MutOp::Truncate { keep: par as usize } });
            sc.client.mute_after = Some(fi + 1);
            sc.client.ka_default = crate::client::KaPolicy::Never;
        }
        10 => {
            let (count, size) = [(200u32, 50u32), (600, 300), (1500, 700), (3000, 90), (400, 2000), (2500, 401)][par as usize % 6];
            sc.cfg.max_frame = None;
            sc.client.flood = Some(crate::client::Flood { at_ns: ms(1), count, size });
            sc.client.coalesce = true;
            sc.client.info_delay_ns = secs(2);
        }
        6 => {
            for _ in 0..par {
                sc.wplan.push(crate::pipe::WRule::Accept { max: 1_000_000 });
            }
            sc.wplan.push(crate::pipe::WRule::Broken);
        }
        7 => {
            sc.client.close_after = Some((fi + 1, true));
        }
        _ => {
            sc.client.enc = match par {
                0 => EncVariant::Garbage { len: 0 },
                1 => EncVariant::Garbage { len: 1 },
                2 => EncVariant::Garbage { len: 127 },
                3 => EncVariant::Garbage { len: 128 },
                4 => EncVariant::Garbage { len: 129 },
                5 => EncVariant::Garbage { len: 1000 },
                6 => EncVariant::SecretLen { len: 0 },
                7 => EncVariant::SecretLen { len: 15 },
                8 => EncVariant::SecretLen { len: 17 },
                9 => EncVariant::SecretLen { len: 32 },
                10 => EncVariant::TokenZero { len: 128 },
                11 => EncVariant::TokenPrefix { len: 0 },
                12 => EncVariant::TokenPrefix { len: 31 },
                13 => EncVariant::TokenExtended { extra: 1 },
                14 => EncVariant::SecretLen { len: 16 },
                _ => EncVariant::OtherKey,
            };
        }
    }
    // random segmentation on top (never inside the frame whose prefix delivery is being timed)
    if class != 0 && class != 9 && class != 10 && class != 11 && rng.chance(1, 3) {
        for _ in 0..rng.range(1, 4) {
            let g = rng.pick(&frames).clone();
            sc.client.cuts.push(Cut { at: rng.range(g.start, g.end - 1), gate: if rng.chance(1, 2) { Gate::Now } else { Gate::Delay { ns: ms(1) } }, spurious: rng.below(3) as u8 });
        }
    }
    // a host name of several kilobytes (legal as long as the handshake frame fits): it ends up in the session cookie
    if class == 2 && sc.cfg.max_frame.is_none_or(|m| m >= 10_000) && rng.chance(1, 6) {
        sc.client.mutations.clear();
        sc.client.close_after = None;
        sc.client.host = format!("{}.example.org", "h".repeat(*rng.pick(&[4000usize, 5100, 5200, 7000, 9000])));
    }
    // a history of connections that differ only in what the client chooses: afterwards the process holds no more memory than before
    if rng.chance(1, 25) {
        let mut vary: Vec<String> = ["host", "name", "uuid", "locale", "brand", "addr"].iter().filter(|_| rng.chance(2, 3)).map(|s| s.to_string()).collect();
        if vary.is_empty() {
            vary.push("host".into());
        }
        sc.growth = Some(crate::conn::Growth { per_round: 3 + rng.below(6) as u32, host_len: *rng.pick(&[0u32, 40, 200, 240]), vary });
        if rng.chance(1, 2) {
            sc.services.filter_hostname = Some((*rng.pick(&["^.*$", "example\\.org$", "^nomatch$"])).to_string());
        }
    }

    sc
}

pub fn check(sc: &ConnScenario, out: &ConnOutcome, rep: &mut RunReport) {
    let max = sc.cfg.max_frame.unwrap_or(10_000) as usize;
    if !out.panics.is_empty() || out.result == "Panic" {
        rep.violate("no_panic", format!("handler panicked: {}", out.panics.first().cloned().unwrap_or_default().replace('\n', " ")));
        return;
    }
    let bound = (64 * 1024).max(8 * max);
    if out.max_alloc > bound {
        rep.violate("bounded_allocation", format!("a single allocation of {} bytes was requested while handling (configured maximum frame {max}, bound {bound})", out.max_alloc));
    }
    // after the client's end of stream the handler returns at once
    let eof = out.log.iter().find(|e| e.kind == "eof_delivered").map(|e| e.t_ns);
    if let Some(t) = eof {
        match out.done_ns {
            Some(d) if d <= t => {}
            Some(d) => rep.violate("terminates_after_eof", format!("end of stream delivered at {t} ns, handler returned at {d} ns")),
            None => rep.violate("terminates_after_eof", format!("end of stream delivered at {t} ns, handler still running at the cap ({})", out.result)),
        }
        if out.pipe.reads_after_eof > 1000 {
            rep.violate("terminates_after_eof", format!("{} reads after the end of stream", out.pipe.reads_after_eof));
        }
    }
    // ... and leaves nothing running behind (a back-end call on a detached task goes on after the connection is gone)
    if out.calls_in_flight_at_end > 0 {
        rep.violate("terminates_after_eof", format!("{} back-end call(s) were still being waited for after the handler had returned ({})", out.calls_in_flight_at_end, out.result));
    }
    if out.faults.contains_key("write_broken_pipe") {
        if out.result == "Ok" || out.result == "Hung" {
            rep.violate("broken_transport_ends_connection", format!("a server write failed with BrokenPipe but the handler ended {}", out.result));
        }
        if out.faults.get("write_broken_pipe").copied().unwrap_or(0) > 3 {
            rep.violate("broken_transport_ends_connection", format!("the handler kept writing after BrokenPipe ({} failed writes)", out.faults["write_broken_pipe"]));
        }
    }
    for m in &sc.client.mutations {
        let Some(f) = out.view.sent.get(m.frame) else { continue };
        match &m.op {
            MutOp::OuterLen { v } if *v <= 0 || *v as usize > max => {
                // refused as soon as the prefix is there, without waiting for the body
                let plen = crate::codec::varint(*v).len() as u64;
                let t_prefix = PipeState::avail_at(&out.pipe.avail, f.start + plen).unwrap_or(u64::MAX);
                match out.done_ns {
                    Some(d) if d <= t_prefix => {}
                    other => rep.violate("illegal_length_refused_before_body", format!("declared length {v} (max {max}): prefix available at {t_prefix} ns, handler returned {:?} ({})", other, out.result)),
                }
                if out.result == "Ok" {
                    rep.violate("malformed_input_is_an_error", format!("declared length {v} but listen() returned Ok"));
                }
            }
            MutOp::OuterRaw { bytes }
                if bytes.len() == 5 && bytes.iter().all(|b| b & 0x80 != 0) && {
                    // the 32-bit value the five groups encode; only non-positive / too large ones must be refused
                    let v = bytes.iter().enumerate().fold(0u32, |acc, (i, b)| acc | (u32::from(b & 0x7f) << (7 * i))) as i32;
                    v <= 0 || v as usize > max
                } =>
            {
                let t_prefix = PipeState::avail_at(&out.pipe.avail, f.start + 5).unwrap_or(u64::MAX);
                match out.done_ns {
                    Some(d) if d <= t_prefix => {}
                    other => rep.violate("illegal_length_refused_before_body", format!("five-byte length prefix {} with the continuation bit still set: available at {t_prefix} ns, handler returned {:?} ({})", crate::world::hex(bytes), other, out.result)),
                }
                if out.result == "Ok" {
                    rep.violate("malformed_input_is_an_error", "over-long length prefix but listen() returned Ok".into());
                }
            }
            MutOp::PadTo { total } if *total > max => {
                // an over-long frame that is completely there in one piece is refused all the same
                let t_frame = PipeState::avail_at(&out.pipe.avail, f.end).unwrap_or(u64::MAX);
                match out.done_ns {
                    Some(d) if d <= t_frame => {}
                    other => rep.violate("frame_over_max_refused_when_delivered_whole", format!("frame #{} of {total} bytes (max {max}) available in one piece at {t_frame} ns, handler returned {:?} ({})", m.frame, other, out.result)),
                }
                if out.result == "Ok" {
                    rep.violate("malformed_input_is_an_error", format!("frame of {total} bytes (max {max}) but listen() returned Ok"));
                }
            }
            MutOp::PadTo { total } if *total <= max && *total >= 40 && f.kind == "Extra" => {
                // a legal frame at the size limit is consumed like any other (only for the scenario as generated:
                // ignorable configuration-phase extras sent after Login Acknowledged by a client that goes on)
                let as_generated = sc.client.send_info && sc.client.mute_after.is_none() && sc.client.extras.iter().all(|x| x.after_ack && matches!(x.id, 0x02 | 0x06 | 0x04));
                if as_generated && sc.client.mutations.len() == 1 && sc.client.close_after.is_none() && sc.wplan.is_empty() && matches!(sc.client.enc, EncVariant::Honest) && !matches!(out.result.as_str(), "Ok" | "NoTargetFound") {
                    rep.violate("legal_frame_at_the_size_limit_is_consumed", format!("an ignorable frame of {total} bytes (max {max}) ended the connection with {} {}", out.result, out.result_text));
                }
            }
            MutOp::Truncate { keep } if (*keep as u64) < f.end - f.start + 0 && sc.client.close_after.is_some() => {
                if out.result == "Ok" {
                    rep.violate("malformed_input_is_an_error", format!("frame #{} truncated to {keep} bytes then EOF, but listen() returned Ok", m.frame));
                }
            }
            _ => {}
        }
    }
    // (only for the scenario as generated: an honest login that goes on to Client Information)
    if sc.client.flood.as_ref().is_some_and(|f| f.count >= 1 && f.size >= 16) && sc.client.mutations.is_empty() && matches!(sc.client.enc, EncVariant::Honest) && sc.wplan.is_empty() && matches!(sc.client.intent, 2 | 3) && sc.client.send_info && sc.client.mute_after.is_none() && sc.client.close_after.is_none() && sc.client.protocol > 0 && sc.client.extras.iter().all(|x| x.after_ack && matches!(x.id, 0x02 | 0x06 | 0x04)) && !matches!(out.result.as_str(), "Ok" | "NoTargetFound") {
        rep.violate("valid_frames_are_consumed", format!("a burst of valid ignorable frames ended the connection with {} {}", out.result, out.result_text));
    }
    let enc_sent = out.view.sent.iter().any(|s| s.kind == "EncryptionResponse" && !s.mutated);
    match &sc.client.enc {
        _ if !enc_sent || super::c01::is_honest(&sc.client.enc) => {}
        EncVariant::Garbage { .. } | EncVariant::OtherKey | EncVariant::TokenZero { .. } | EncVariant::TokenPrefix { .. } | EncVariant::TokenExtended { .. } => {
            if out.result == "Ok" || out.view.first("LoginSuccess").is_some() {
                rep.violate("malformed_input_is_an_error", format!("Encryption Response {:?} but result {} packets {:?}", sc.client.enc, out.result, out.view.kinds()));
            }
        }
        EncVariant::SecretLen { len } if *len != 16 => {
            if out.result == "Ok" {
                rep.violate("malformed_input_is_an_error", format!("shared secret of {len} bytes but listen() returned Ok"));
            }
        }
        _ => {}
    }
}

/// The scenario with the `n`-th set of client-chosen values (unique per scenario seed, so that nothing an earlier
/// evaluation of this process left behind is hit again).
fn varied(sc: &ConnScenario, g: &crate::conn::Growth, n: u32) -> ConnScenario {
    let mut s = sc.clone();
    s.growth = None;
    s.prelude.clear();
    let tag = format!("{:x}-{n:x}", sc.seed & 0xffff_ffff);
    for v in &g.vary {
        match v.as_str() {
            "host" => s.client.host = format!("h{tag}{}.example.org", "x".repeat(g.host_len as usize)),
            "name" => s.client.name = format!("P{tag}").chars().take(16).collect(),
            "uuid" => s.client.uuid = format!("{:032x}", (u128::from(sc.seed) << 32) | u128::from(n)),
            "locale" => s.client.locale = format!("l{tag}").chars().take(16).collect(),
            "brand" => {
                for x in s.client.extras.iter_mut() {
                    if let crate::client::Body::Raw { bytes } = &mut x.body {
                        bytes.extend_from_slice(tag.as_bytes());
                    }
                }
            }
            "addr" => s.cfg.client_addr = format!("198.51.{}.{}:{}", (sc.seed >> 8) & 0xff, n & 0xff, 40000 + (n & 0xfff)),
            _ => {}
        }
    }
    s
}

/// Three rounds of `per_round` connections each; the live heap of this thread is read between rounds, at points where
/// every connection of the round is over and everything the harness built for it has been dropped.
fn run_growth(sc: &ConnScenario, g: &crate::conn::Growth) -> RunReport {
    if g.per_round == 0 || g.per_round > 64 || g.host_len > 4000 {
        return RunReport::default();
    }
    let mut rep = RunReport::default();
    // the filter chain (real `OptionFilterAdapter`s) and the localization adapter live as long as the process does
    let _persist = crate::conn::persist_adapters(&sc.services);
    let mut marks = [0isize; 3];
    let mut n = 0u32;
    let mut panicked = false;
    for (r, mark) in marks.iter_mut().enumerate() {
        for _ in 0..g.per_round {
            let s = varied(sc, g, n);
            n += 1;
            let out = run_conn(&s);
            if r == 0 && rep.runs == 0 {
                rep = base_report(&out);
                rep.faults.insert("history_of_connections_with_fresh_client_values".into(), 0);
                rep.faults.insert("real_option_filter_with_hostname".into(), 0);
            } else {
                rep.runs += 1;
                rep.sim_ns += out.end_ns;
            }
            panicked |= !out.panics.is_empty();
        }
        *mark = crate::alloc::live_bytes();
    }
    rep.nontrivial = true;
    *rep.faults.get_mut("history_of_connections_with_fresh_client_values").unwrap() += 1;
    if sc.services.filter_hostname.is_some() {
        *rep.faults.get_mut("real_option_filter_with_hostname").unwrap() += 1;
    }
    let mut h = crate::rng::Fnv(rep.trace_hash);
    h.write_str(&format!("growth {:?}", g));
    rep.trace_hash = h.0;
    if panicked {
        // (the panic itself is reported by the single-connection runs; the messages kept for it are harness memory)
        return rep;
    }
    let (d1, d2) = (marks[1] - marks[0], marks[2] - marks[1]);
    let slack = 16 * g.per_round as isize;
    if (d1 != 0 || d2 != 0) && std::env::var("VERIF_DEBUG_GROWTH").is_ok() {
        eprintln!("growth d1={d1} d2={d2} per_round={} vary={:?} muts={:?} mute={:?} close={:?} hostlen={} flood={} enc={:?} wplan={} intent={}", g.per_round, g.vary, sc.client.mutations.iter().map(|m| format!("{:?}", m.op).chars().take(30).collect::<String>()).collect::<Vec<_>>(), sc.client.mute_after, sc.client.close_after, sc.client.host.len(), sc.client.flood.is_some(), sc.client.enc, sc.wplan.len(), sc.client.intent);
    }
    *rep.probes.entry(if d1 == 0 && d2 == 0 { "live_heap_unchanged_between_rounds" } else if d1.abs() <= slack && d2.abs() <= slack { "live_heap_changed_within_slack" } else { "live_heap_changed_in_one_round_only_or_shrank" }.into()).or_insert(0) += 1;
    if d1 > slack && d2 > slack {
        // Growth round after round - or a bounded cache that is still filling up? Confirmation: 6 000 more connections in
        // four blocks; only growth that is still going on in the last block (connections 4 500 to 6 000) is reported.
        // (Skipped while the shrinker tries candidates; the scenario as found and the minimised one get the full verdict.)
        if !crate::runner::SHRINKING.with(|s| s.get()) {
            // (the live heap is sampled every 50 connections and the maxima of the last two blocks are compared, so that a
            // cache that is emptied whenever it is full - a sawtooth - is recognised as bounded too)
            let mut peaks = [isize::MIN; 5];
            let began = std::time::Instant::now();
            for peak in peaks.iter_mut().skip(1) {
                for k in 0..1500 {
                    // (an expensive scenario would take minutes here and trip the watchdog: give up without a verdict - a
                    // cheaper scenario of the batch will carry the same growth)
                    if k % 50 == 0 && began.elapsed().as_secs() >= 12 {
                        *rep.probes.entry("live_heap_growth_confirmation_given_up_too_slow".into()).or_insert(0) += 1;
                        return rep;
                    }
                    let s = varied(sc, g, n);
                    n += 1;
                    let out = run_conn(&s);
                    rep.runs += 1;
                    rep.sim_ns += out.end_ns;
                    if !out.panics.is_empty() {
                        return rep;
                    }
                    drop(out);
                    drop(s);
                    if k % 50 == 49 {
                        *peak = (*peak).max(crate::alloc::live_bytes());
                    }
                }
            }
            let blocks = peaks;
            *rep.probes.entry("live_heap_growth_confirmation_phase".into()).or_insert(0) += 1;
            if blocks[4] - blocks[3] <= 16 * 1500 / 4 {
                *rep.probes.entry("live_heap_growth_stopped_a_bounded_cache_filled_up".into()).or_insert(0) += 1;
                return rep;
            }
        }
        rep.violate(
            "memory_is_released_after_the_connections",
            format!("after {0} more connections that differ only in {1:?} the process holds {d1} bytes more, after another {0} again {d2} bytes more", g.per_round, g.vary),
        );
    }
    rep
}

impl Check for C04 {
    type Sc = ConnScenario;
    fn id(&self) -> &'static str {
        "C04"
    }
    fn level(&self) -> &'static str {
        "fault_enumeration"
    }
    fn rule_text(&self) -> String {
        "four honest transcripts (status; login; transfer; transfer with valid cookies - each through the configuration phase with two ignorable packets) with exactly one mutation enumerated by run index over every frame: a BrokenPipe on the n-th server write; a client reset after any frame; a five-byte length prefix with the continuation bit still set followed by up to 300 KB; outer length set to -1 / 0 / -2^31 / 2^31-1 / 2097152 / max / max+1 / len+-1 (prefix delivered alone, body 10 s later); truncation at every byte offset followed by EOF or reset; every byte offset replaced by VarInt -1 / 2^31-1 / -2^31 / over-long zero / six-byte VarInt / 00 / 7f / 80 / ff / invalid UTF-8 with the outer length repaired; 1-300 random bytes appended after the frame; a bit flipped on the wire (ciphertext once encrypted); 12 Encryption Response variants (garbage of 0/1/127/128/129/1000 bytes, secrets of 0/15/17/32 bytes, zero token, other key); maximum frame 300 / 1024 / 10000 / 100000; a third of the runs under random segmentation. One evaluation in 25 is a history: the scenario is run 3 x (3..8) times with fresh client-chosen values (host name up to 240 bytes longer, player name, UUID, locale, brand, address) over adapter objects that persist (real OptionFilterAdapter with or without a hostname pattern around the scripted filter, real FixedLocalizationAdapter), and the live heap of the evaluating thread is read between the rounds. Non-trivial = the mutation was applied to a frame that was actually sent; distinct = distinct (event-order trace, mutation) hash.".into()
    }
    fn assumptions(&self) -> Vec<String> {
        vec![
            "allocation is measured as the largest single request made on the simulation thread while the connection future is being polled (service stubs run inside that poll; their small log allocations are included, the event-log growth is excluded)".into(),
            "live memory in a history is the thread's allocated-minus-freed byte count at points where every connection of the round is over and the harness has dropped what it built; growth is only reported when two consecutive rounds each add more than 16 bytes per connection and, in a confirmation phase of 6 000 further connections, is still going on in the last 1 500 of them (a one-time fill of a cache, or a cache bounded by a few thousand entries, is not growth), and not at all when a run of the history panicked (the kept panic messages are harness memory)".into(),
            "whether an over-long VarInt or trailing bytes inside a frame count as malformed is the codec's business (C09); for those only no-panic / bounded allocation / termination are required".into(),
        ]
    }
    fn components(&self) -> Value {
        json!({"real": ["Connection::listen / receive_packet", "passage-packets reader (strings, byte arrays, enums, VarInt)", "crypto::decrypt / create_ciphers", "error mapping", "OptionFilterAdapter and the Vec<T> filter chain of passage-adapters (around the scripted filter)", "FixedLocalizationAdapter"], "stub": ["transport", "mutating client", "services", "counting allocator (largest request, live bytes per thread) + panic hook (observation)"]})
    }
    fn count(&self, tier: Tier) -> u64 {
        match tier {
            Tier::Quick => 150_000,
            Tier::Thorough => 8_000_000,
        }
    }
    fn generate(&self, rng: &mut Rng, index: u64, _tier: Tier) -> ConnScenario {
        generate(rng, index)
    }
    fn execute(&self, sc: &ConnScenario) -> RunReport {
        if !conn_domain_ok(sc) || sc.client.script.is_some() {
            return RunReport::default();
        }
        if let Some(g) = &sc.growth {
            return run_growth(sc, g);
        }
        let out = run_conn(sc);
        let mut rep = base_report(&out);
        rep.nontrivial = out.view.sent.iter().any(|s| s.mutated) || !matches!(sc.client.enc, EncVariant::Honest) || sc.client.flood.is_some();
        if sc.client.flood.is_some() {
            *rep.faults.entry("burst_of_valid_ignorable_frames".into()).or_insert(0) += 1;
        }
        let mut h = crate::rng::Fnv(rep.trace_hash);
        h.write_str(&serde_json::to_string(&sc.client.mutations).unwrap_or_default());
        h.write_str(&format!("{:?}", sc.client.enc));
        rep.trace_hash = h.0;
        for m in &sc.client.mutations {
            let name = match m.op {
                MutOp::OuterLen { .. } => "mut_outer_length",
                MutOp::OuterRaw { .. } => "mut_overlong_length_prefix",
                MutOp::Truncate { .. } if sc.client.close_after.is_none() && sc.client.mute_after.is_some() => "mut_truncate_then_silence_until_the_keep_alive_timeout",
                MutOp::Truncate { .. } => "mut_truncate_then_eof",
                MutOp::Patch { .. } | MutOp::Splice { .. } => "mut_splice_inner",
                MutOp::Append { .. } => "mut_append_junk",
                MutOp::WireFlip { .. } => "mut_wire_bit_flip",
                MutOp::PadTo { .. } => "mut_overlong_frame_delivered_whole",
            };
            *rep.faults.entry(name.into()).or_insert(0) += 1;
        }
        check(sc, &out, &mut rep);
        rep
    }
}
