//! C01 - only an authenticated identity is ever admitted.

use super::common::*;
use crate::client::{ClientSpec, EncVariant};
use crate::conn::{ConnCfg, ConnOutcome, ConnScenario, Wall, run_conn};
use crate::rng::Rng;
use crate::runner::{Check, RunReport, Tier};
use crate::services::{AuthRes, DiscRes, Script, Services, StratRes};
use crate::world::unhex;
use serde_json::{Value, json};

pub struct C01;

pub fn gen_enc(rng: &mut Rng) -> EncVariant {
    match rng.below(17) {
        0..=5 => EncVariant::Honest,
        14 => EncVariant::TokenPrefix { len: *rng.pick(&[0usize, 1, 8, 16, 31]) },
        15 => EncVariant::TokenExtended { extra: *rng.pick(&[1usize, 16, 32]) },
        6 => EncVariant::WrongToken,
        // an empty token stands for "the token a previous connection was really issued" (filled in at execution)
        7 => EncVariant::StaleToken { token: if rng.chance(1, 2) { vec![] } else { rng.bytes(32) } },
        8 => EncVariant::OtherKey,
        9 => EncVariant::Garbage { len: *rng.pick(&[0usize, 1, 127, 128, 129, 1000]) },
        10 => EncVariant::TokenPlain,
        11 => EncVariant::SecretLen { len: *rng.pick(&[0usize, 15, 17, 32]) },
        12 => EncVariant::TokenZero { len: *rng.pick(&[0usize, 32, 128]) },
        _ => EncVariant::Honest,
    }
}

pub fn is_honest(v: &EncVariant) -> bool {
    match v {
        EncVariant::Honest | EncVariant::SecretLen { .. } => true,
        EncVariant::TokenExtended { extra } => *extra == 0,
        EncVariant::TokenPrefix { len } => *len >= 32,
        _ => false,
    }
}

fn generate(rng: &mut Rng) -> ConnScenario {
    let intent = *rng.pick(&[1, 2, 2, 2, 3, 3, 3, 3]);
    let slen = *rng.pick(&[1usize, 8, 32]);
    let secret = if rng.chance(2, 3) { Some(rng.bytes(slen)) } else { None };
    let client_addr = gen_addr(rng);
    let mut client = ClientSpec::base(rng, intent);
    client.name = gen_name(rng);
    client.uuid = format!("{:032x}", gen_uuid(rng));
    client.enc = gen_enc(rng);
    client.info = gen_info(rng);
    let wall = Wall::default();
    let mut prior_cookie: Option<Vec<u8>> = None;
    // optionally a valid (or subtly invalid) cookie carrying another identity
    if intent == 3 && rng.chance(1, 2) {
        let id = Identity {
            name: if rng.chance(1, 4) { gen_name(rng) } else { format!("Cookie{}", rng.below(100)) },
            uuid: gen_uuid(rng),
            props: gen_props(rng),
        };
        let (sec, addr, ts) = match rng.below(6) {
            0 => (rng.bytes(8), client_addr.clone(), wall.base_s),          // other secret
            1 => (secret.clone().unwrap_or_default(), gen_addr(rng), wall.base_s), // other ip
            2 => (secret.clone().unwrap_or_default(), client_addr.clone(), wall.base_s - 7 * 3600), // expired
            _ => (secret.clone().unwrap_or_default(), client_addr.clone(), wall.base_s - rng.below(3600)),
        };
        match rng.below(6) {
            0 => client.uuid = format!("{:032x}", id.uuid),
            1 => client.name = id.name.clone(),
            _ => {}
        }
        let body = cookie_json(ts, &addr, &id, Some("old-target"));
        client.auth_cookie = Some(signed_cookie(&sec, &body));
        // a forgery that leans on an earlier connection: that one presents a genuine cookie (and is accepted),
        // this one presents the genuine tag in front of a body naming somebody else
        if secret.is_some() && rng.chance(1, 5) {
            let genuine_id = Identity { name: format!("Genuine{}", rng.below(100)), uuid: gen_uuid(rng), props: vec![] };
            let genuine = signed_cookie(secret.as_ref().unwrap(), &cookie_json(wall.base_s - rng.below(600), &client_addr, &genuine_id, Some("old-target")));
            let mut forged = genuine[..32].to_vec();
            forged.extend_from_slice(&cookie_json(wall.base_s - rng.below(600), &client_addr, &id, Some("old-target")));
            client.auth_cookie = Some(forged);
            prior_cookie = Some(genuine);
        }
    }
    let verdict = match rng.below(10) {
        0 => AuthRes::Error,
        // degenerate but successful verdicts: an empty name, the nil UUID
        8 => AuthRes::Profile { name: if rng.chance(1, 2) { String::new() } else { client.name.clone() }, uuid: format!("{:032x}", 0u128), props: gen_props(rng) },
        9 => AuthRes::Profile { name: String::new(), uuid: format!("{:032x}", gen_uuid(rng)), props: vec![] },
        1 => AuthRes::Claim,
        2 => AuthRes::Profile { name: format!("Real{}", rng.below(100)), uuid: client.uuid.clone(), props: vec![] },
        3 => AuthRes::Profile { name: client.name.clone(), uuid: format!("{:032x}", gen_uuid(rng)), props: vec![] },
        4 => AuthRes::Profile { name: client.name.clone(), uuid: client.uuid.clone(), props: gen_props(rng) },
        7 => AuthRes::Profile { name: gen_name(rng), uuid: format!("{:032x}", gen_uuid(rng)), props: gen_props(rng) },
        _ => AuthRes::Profile { name: format!("Real{}", rng.below(100)), uuid: format!("{:032x}", gen_uuid(rng)), props: gen_props(rng) },
    };
    let auth_lat = *rng.pick(&[0u64, 0, ms(3), secs(2), secs(20)]);
    let ntargets = rng.below(3) as usize;
    let targets: Vec<_> = (0..ntargets).map(|i| gen_target(rng, i)).collect();
    let services = Services {
        auth: Script::always(Some(auth_lat), verdict),
        discovery: Script::always(Some(*rng.pick(&[0u64, 0, ms(5), secs(17)])), DiscRes::Targets(targets)),
        strategy: Script::always(Some(0), StratRes::First),
        ..Default::default()
    };
    let mut sc = ConnScenario {
        seed: rng.next_u64(),
        cfg: ConnCfg { secret, expiry: None, max_frame: None, client_addr },
        wall,
        services,
        client,
        wplan: vec![],
        cap_ns: secs(600),
        prelude: vec![],
        growth: None,
    };
    zero_time_noise(rng, &mut sc);
    // the same claim twice: an earlier connection from this address with this very name and UUID was authenticated
    // by the service; now the service fails (or vouches for somebody else) - what it said last time does not count
    if prior_cookie.is_none() && sc.client.intent != 1 && sc.client.auth_cookie.is_none() && rng.chance(1, 8) {
        let mut prior = sc.clone();
        prior.client.enc = EncVariant::Honest;
        prior.services.auth = Script::always(Some(0), if rng.chance(1, 2) { AuthRes::Claim } else { AuthRes::Profile { name: format!("Earlier{}", rng.below(100)), uuid: sc.client.uuid.clone(), props: gen_props(rng) } });
        prior.seed ^= 0x0202_0202;
        prior.client.rng ^= 0x22;
        sc.prelude = vec![prior];
        if rng.chance(1, 2) {
            sc.services.auth = Script::always(Some(0), AuthRes::Error);
        }
    }
    if let Some(genuine) = prior_cookie {
        let mut prior = sc.clone();
        prior.client.auth_cookie = Some(genuine);
        prior.client.enc = EncVariant::Honest;
        prior.seed ^= 0x0101_0101;
        prior.client.rng ^= 0x11;
        sc.prelude = vec![prior];
    }
    sc
}

pub fn check(sc: &ConnScenario, out: &ConnOutcome, rep: &mut RunReport) {
    let c = &sc.client;
    if !out.panics.is_empty() {
        rep.violate("no_panic", format!("handler panicked: {}", out.panics[0]));
    }
    if let Some(u) = &out.view.undecodable {
        // with an honest 16-byte secret the client must be able to read everything
        if matches!(c.enc, EncVariant::Honest) {
            rep.violate("same_secret_keys_cipher", format!("client cannot decode the stream under its own shared secret: {u}"));
        }
    }
    if c.intent == 1 {
        if out.view.packets.iter().any(|p| matches!(p.kind.as_str(), "LoginSuccess" | "StoreCookie" | "Transfer" | "EncryptionRequest")) {
            rep.violate("status_never_admits", "login packets on a status connection".into());
        }
        return;
    }
    check_service_addresses(sc, out, rep);
    let enc_req = out.view.first("EncryptionRequest");
    let login_success = out.view.first("LoginSuccess");
    let auth_cookie_out = auth_store_cookie(out);
    let transfer = out.view.first("Transfer");
    let granted = login_success.is_some() || auth_cookie_out.is_some() || transfer.is_some();
    // bytes after the Encryption Request that the client could not attribute (dishonest variants)
    let upto_enc: usize = out
        .view
        .packets
        .iter()
        .take_while(|p| p.kind != "EncryptionRequest")
        .map(|p| p.len + crate::codec::varint(p.len as i32).len())
        .sum::<usize>()
        + enc_req.map(|p| p.len + crate::codec::varint(p.len as i32).len()).unwrap_or(0);
    let extra_bytes = out.view.rx_total as usize > upto_enc;

    let honest = is_honest(&c.enc);
    let secret_ok = match &c.enc {
        EncVariant::SecretLen { len } => *len == 16,
        _ => true,
    };
    let auth_calls: Vec<&Value> = out.events("svc:auth", "call").map(|e| &e.detail).collect();
    let auth_done_ok = out.events("svc:auth", "done").any(|e| e.detail["ok"] == json!(true));
    let auth_failed = out.events("svc:auth", "done").any(|e| e.detail["ok"] == json!(false));

    // when was the cookie evaluated: at the instant the auth cookie response was sent (no transport delays here)
    let cookie_t = out.view.sent.iter().filter(|s| s.kind == "CookieResponse").nth(1).map(|s| s.t_ns).unwrap_or(0);
    let cookie = cookie_accepted(c.intent, sc.cfg.secret.as_deref(), c.auth_cookie.as_deref(), &sc.cfg.client_addr, wall_at(sc, cookie_t), expiry_of(sc));

    // R4
    if !honest && (granted || extra_bytes) {
        rep.violate("dishonest_response_grants_nothing", format!("Encryption Response variant {:?} but the server went on: packets {:?}", c.enc, out.view.kinds()));
    }
    if !honest && out.result == "Ok" {
        rep.violate("dishonest_response_ends_connection", format!("variant {:?} but listen() returned Ok", c.enc));
    }
    if honest && !secret_ok && (granted || extra_bytes || out.result == "Ok") {
        rep.violate("wrong_secret_length_grants_nothing", format!("secret of wrong length but packets {:?} result {}", out.view.kinds(), out.result));
    }
    if auth_failed && (granted || out.result == "Ok") {
        rep.violate("auth_failure_grants_nothing", format!("authentication service failed but packets {:?} result {}", out.view.kinds(), out.result));
    }
    // R1
    if granted {
        if !honest {
            return;
        }
        if cookie.is_none() && !auth_done_ok {
            rep.violate("grant_requires_voucher", format!("packets {:?} sent without a successful authentication call or a valid cookie", out.view.kinds()));
            return;
        }
    }
    // R2
    if let Some(call) = auth_calls.first() {
        let want_key = enc_req.and_then(|p| p.fields["public_key"].as_str()).unwrap_or("");
        if honest && call["shared_secret"].as_str() != Some(&crate::world::hex(&c.shared_secret)) && secret_ok {
            rep.violate("auth_called_with_connection_secret", "authentication service was asked with a different shared secret than the one the client sent".into());
        }
        if call["public_key"].as_str() != Some(want_key) {
            rep.violate("auth_called_with_server_key", "authentication service was asked with a different public key than the Encryption Request carried".into());
        }
        if call["name"].as_str() != Some(&c.name) || call["uuid"].as_str() != Some(&c.uuid) {
            rep.violate("auth_called_with_claim", format!("authentication service was asked about {} / {} instead of the claimed {} / {}", call["name"], call["uuid"], c.name, c.uuid));
        }
        if call["client_addr"].as_str() != Some(&sc.cfg.client_addr) || call["host"].as_str() != Some(&c.host) || call["port"] != json!(c.port) || call["protocol"] != json!(c.protocol) {
            rep.violate("auth_called_with_connection_facts", format!("authentication service got {call}"));
        }
        if auth_calls.len() > 1 {
            rep.violate("auth_called_once", format!("{} authentication calls on one connection", auth_calls.len()));
        }
    }
    // R3: the vouched identity
    let vouched: Option<Identity> = match (&cookie, &sc.services.auth.default.res) {
        (Some(ck), _) => Some(ck.id.clone()),
        (None, AuthRes::Claim) => Some(Identity { name: c.name.clone(), uuid: c.uuid_u128(), props: vec![] }),
        (None, AuthRes::Profile { name, uuid, props }) => Some(Identity { name: name.clone(), uuid: u128::from_str_radix(uuid, 16).unwrap_or(0), props: props.clone() }),
        (None, AuthRes::Derived) => Some(super::swarm::derived_identity(&c.name, c.uuid_u128())),
        (None, AuthRes::ErrorIfName { prefix }) => if c.name.starts_with(prefix.as_str()) { None } else { Some(Identity { name: c.name.clone(), uuid: c.uuid_u128(), props: vec![] }) },
        (None, AuthRes::Error) => None,
    };
    if let (Some(v), Some((n, u))) = (&vouched, login_success_identity(out))
        && (n != v.name || u != v.uuid)
    {
        rep.violate("login_success_identity", format!("Login Success names {n} / {u:032x}, vouched identity is {} / {:032x} (claimed {} / {})", v.name, v.uuid, c.name, c.uuid));
    }
    for svc in ["svc:filter", "svc:strategy"] {
        for e in out.events(svc, "call") {
            if let (Some(v), Some((n, u))) = (&vouched, svc_user(&e.detail))
                && (n != v.name || u != v.uuid)
            {
                rep.violate("routing_identity", format!("{svc} was given player {n} / {u:032x}, vouched identity is {} / {:032x}", v.name, v.uuid));
            }
        }
    }
    if let (Some(v), Some(ck)) = (&vouched, &auth_cookie_out) {
        match parse_cookie_body(&ck[32.min(ck.len())..]) {
            Some(p) => {
                if p.id != *v {
                    rep.violate("cookie_identity", format!("issued cookie carries {:?}, vouched identity is {:?}", p.id, v));
                }
            }
            None => rep.violate("cookie_identity", "issued authentication cookie body does not parse".into()),
        }
    }
    let _ = unhex;
}

/// A single connection over the simulated pipe, or several players through one real `Listener`.
#[derive(Clone, Debug, serde::Serialize, serde::Deserialize, PartialEq)]
pub enum C01Sc {
    Conn(Box<ConnScenario>),
    Listener(Box<crate::net::NetScenario>),
}

impl Check for C01 {
    type Sc = C01Sc;
    fn id(&self) -> &'static str {
        "C01"
    }
    fn level(&self) -> &'static str {
        "exploration"
    }
    fn rule_text(&self) -> String {
        "9 of 10 evaluations - random connections: intent status/login/transfer, secret or none, claimed identity, authentication verdict (claim, other name, other UUID, other properties, error, with latency up to 20 s), Encryption Response variant (honest; wrong, stale, plaintext, zero, truncated (0-31 byte prefix) or extended token; other key; garbage of 6 lengths; secret of 0/15/17/32 bytes), optional cookie that is valid or invalid in one respect, 0-2 targets. 1 of 10 evaluations - listener mode: 2-14 players log in through one real Listener within a second or two, each with a claim, an address and (for some) a genuine cookie of its own; the authentication service vouches for an identity derived from the claim; every Login Success must carry the identity vouched for on that very connection and every admitted fresh login must have asked the service itself, with its own address. Non-trivial = the run reached the Encryption Response with a dishonest variant, a failing or identity-changing authentication verdict, or a cookie; distinct = distinct event-order trace hash.".into()
    }
    fn assumptions(&self) -> Vec<String> {
        vec![
            "the simulated authentication service stands in for the real session server; the adapter trait is the seam".into(),
            "the independent client's RSA/CFB8/codec are correct (they interoperate with the real server in every honest run)".into(),
        ]
    }
    fn components(&self) -> Value {
        json!({"real": ["Connection::listen", "Listener::listen / handle (listener mode)", "CipherStream", "crypto (RSA key pair, decrypt, verify token)", "cookie sign/verify", "passage-packets codec (server side)"],
               "stub": ["transport (SimPipe, fault-free here)", "client (independent)", "authentication/discovery/filter/strategy/status services (scripted)", "wall clock"]})
    }
    fn count(&self, tier: Tier) -> u64 {
        match tier {
            Tier::Quick => 150_000,
            Tier::Thorough => 6_000_000,
        }
    }
    fn generate(&self, rng: &mut Rng, index: u64, _tier: Tier) -> C01Sc {
        if index % 10 == 9 { C01Sc::Listener(Box::new(super::swarm::generate(rng))) } else { C01Sc::Conn(Box::new(generate(rng))) }
    }
    fn execute(&self, sc: &C01Sc) -> RunReport {
        let sc: &ConnScenario = match sc {
            C01Sc::Conn(c) => c,
            C01Sc::Listener(n) => return super::swarm::execute(n, true, false),
        };
        if !conn_domain_ok(sc) || !matches!(sc.client.intent, 1..=3) || sc.client.script.is_some() || !sc.client.mutations.is_empty() || !transport_is_zero_time(sc) {
            return RunReport::default();
        }
        // a really stale token: run a donor connection first (same process and thread, so anything the
        // code under test keeps between connections is kept) and present the token it was issued
        let mut with_donor = None;
        if let EncVariant::StaleToken { token } = &sc.client.enc
            && token.is_empty()
        {
            let mut donor = sc.clone();
            donor.client.enc = EncVariant::Honest;
            donor.seed ^= 0x5a5a_0001;
            donor.client.rng ^= 1;
            let d = run_conn(&donor);
            let tok = d.view.verify_token.as_deref().map(unhex).unwrap_or_else(|| vec![0u8; 32]);
            let mut s2 = sc.clone();
            s2.client.enc = EncVariant::StaleToken { token: tok };
            with_donor = Some(s2);
        }
        let donor_used = with_donor.is_some();
        let sc = with_donor.as_ref().unwrap_or(sc);
        let prior: Vec<(&ConnScenario, ConnOutcome)> = sc.prelude.iter().filter(|p| p.prelude.is_empty() && transport_is_zero_time(p) && matches!(p.client.intent, 1..=3) && p.client.script.is_none() && p.client.mutations.is_empty()).map(|p| (p, run_conn(p))).collect();
        let out = run_conn(sc);
        let mut rep = base_report(&out);
        for (p, o) in &prior {
            rep.runs += 1;
            rep.sim_ns += o.end_ns;
            rep.trace_hash = rep.trace_hash.rotate_left(13) ^ o.trace_hash();
            rep.full_hash = rep.full_hash.rotate_left(13) ^ o.full_hash();
            *rep.faults.entry("earlier_connection_presented_a_genuine_cookie".into()).or_insert(0) += 1;
            check(p, o, &mut rep);
        }
        if donor_used {
            rep.runs = 2;
            *rep.faults.entry("token_of_a_previous_connection_replayed".into()).or_insert(0) += 1;
        }
        rep.nontrivial = sc.client.intent != 1
            && out.view.first("EncryptionRequest").is_some()
            && (!matches!(sc.client.enc, EncVariant::Honest)
                || !matches!(sc.services.auth.default.res, AuthRes::Claim)
                || sc.client.auth_cookie.is_some());
        if !matches!(sc.client.enc, EncVariant::Honest) {
            *rep.faults.entry("dishonest_encryption_response".into()).or_insert(0) += 1;
        }
        if matches!(sc.services.auth.default.res, AuthRes::Error) {
            *rep.faults.entry("auth_service_error".into()).or_insert(0) += 1;
        }
        let class = format!("{:?}|{:?}|{}|{}", std::mem::discriminant(&sc.client.enc), std::mem::discriminant(&sc.services.auth.default.res), sc.client.auth_cookie.is_some(), sc.client.intent);
        let mut h = crate::rng::Fnv(rep.trace_hash);
        h.write_str(&class);
        if let crate::client::EncVariant::Garbage { len }
        | crate::client::EncVariant::SecretLen { len }
        | crate::client::EncVariant::TokenZero { len }
        | crate::client::EncVariant::TokenPrefix { len }
        | crate::client::EncVariant::TokenExtended { extra: len } = &sc.client.enc
        {
            h.write_u64(*len as u64);
        }
        rep.trace_hash = h.0;
        check(sc, &out, &mut rep);
        rep
    }
}
