//! C15 - admission is decided on the effective client address, before any protocol work.
//! Arrival histories through load-balancer peers with PROXY v1/v2 headers (valid, invalid,
//! disabled version, absent) against the real Listener + proxy-header parser + RateLimiter; the
//! oracle replays the effective addresses of the valid connections into a second real limiter.

use super::common::*;
use crate::client::{ClientSpec, Cut};
use crate::pipe::{Gate, PipeState};
use crate::conn::new_runtime;
use crate::net::{NetCfg, NetClient, NetOutcome, NetScenario, run_net};
use crate::rng::Rng;
use crate::runner::{Check, RunReport, Tier};
use crate::services::{AuthRes, DiscRes, Script, Services, TargetSpec};
use passage_protocol::rate_limiter::RateLimiter;
use serde::{Deserialize, Serialize};
use serde_json::{Value, json};
use std::net::{IpAddr, SocketAddr};
use std::time::Duration;

pub struct C15;

#[derive(Clone, Debug, Serialize, Deserialize, PartialEq)]
pub struct Meta {
    /// the connection carries a header the configuration accepts (always true with PROXY off)
    pub valid: bool,
    /// effective client address (announced source, or the TCP peer)
    pub effective: String,
    pub kind: String,
}

#[derive(Clone, Debug, Serialize, Deserialize, PartialEq)]
pub struct C15Sc {
    pub net: NetScenario,
    pub meta: Vec<Meta>,
}

pub fn v1_header(src: &SocketAddr, dst: &SocketAddr) -> Vec<u8> {
    let fam = if src.is_ipv4() { "TCP4" } else { "TCP6" };
    format!("PROXY {fam} {} {} {} {}\r\n", src.ip(), dst.ip(), src.port(), dst.port()).into_bytes()
}

/// PROXY v2 header announcing a datagram transport (UDP over IPv4 / IPv6) instead of a stream.
pub fn v2_header_dgram(src: &SocketAddr, dst: &SocketAddr) -> Vec<u8> {
    let mut h = v2_header(src, dst, false);
    // byte 13: address family (high nibble) and transport (low nibble: 1 stream, 2 datagram)
    h[13] = (h[13] & 0xf0) | 0x02;
    h
}

pub fn v2_header(src: &SocketAddr, dst: &SocketAddr, local: bool) -> Vec<u8> {
    let mut h = b"\r\n\r\n\0\r\nQUIT\n".to_vec();
    if local {
        h.push(0x20);
        h.push(0x00);
        h.extend_from_slice(&0u16.to_be_bytes());
        return h;
    }
    h.push(0x21);
    match (src.ip(), dst.ip()) {
        (IpAddr::V4(s), IpAddr::V4(d)) => {
            h.push(0x11);
            h.extend_from_slice(&12u16.to_be_bytes());
            h.extend_from_slice(&s.octets());
            h.extend_from_slice(&d.octets());
        }
        (s, d) => {
            let to6 = |a: IpAddr| match a {
                IpAddr::V6(x) => x.octets(),
                IpAddr::V4(x) => x.to_ipv6_mapped().octets(),
            };
            h.push(0x21);
            h.extend_from_slice(&36u16.to_be_bytes());
            h.extend_from_slice(&to6(s));
            h.extend_from_slice(&to6(d));
        }
    }
    h.extend_from_slice(&src.port().to_be_bytes());
    h.extend_from_slice(&dst.port().to_be_bytes());
    h
}

/// A PROXY v2 header with `pad` bytes of NOOP TLV (type 0x04) behind the addresses (what proxies that attach TLVs - SSL
/// details, unique ids, padding - produce; the length field covers them).
pub fn v2_header_padded(src: &SocketAddr, dst: &SocketAddr, pad: u16) -> Vec<u8> {
    let mut h = v2_header(src, dst, false);
    let len = u16::from_be_bytes([h[14], h[15]]) + 3 + pad;
    h[14..16].copy_from_slice(&len.to_be_bytes());
    h.push(0x04);
    h.extend_from_slice(&pad.to_be_bytes());
    h.extend(std::iter::repeat_n(0u8, pad as usize));
    h
}

fn generate(rng: &mut Rng) -> C15Sc {
    let proxy = match rng.below(5) {
        0 => None,
        1 => Some((true, false)),
        2 => Some((false, true)),
        _ => Some((true, true)),
    };
    let limiter = if rng.chance(1, 5) { None } else { Some((*rng.pick(&[secs(1), secs(8)]), *rng.pick(&[1usize, 2, 3, 1, 2, 3, 0]))) };
    let secret = Some(b"proxy-secret".to_vec());
    let lbs = ["10.0.0.1", "10.0.0.2", "2001:db8:aa::1"];
    let nlb = rng.range(1, 3) as usize;
    // (the IPv4-mapped and IPv4-compatible forms are addresses of their own, like the loopback)
    let sources = ["198.51.100.1", "198.51.100.2", "2001:db8:1::5", "10.0.0.1", "203.0.113.77", "::ffff:198.51.100.1", "::198.51.100.2", "::1"];
    let nsrc = rng.range(1, sources.len() as u64) as usize;
    let slow_headers = proxy.is_some() && rng.chance(1, 3);
    let nmax = if rng.chance(1, 4) { 40 } else { 12 };
    let n = rng.range(1, nmax);
    let mut t = 0u64;
    let mut clients = vec![];
    let mut meta = vec![];
    let dst: SocketAddr = "192.0.2.200:25565".parse().unwrap();
    for i in 0..n {
        t += *rng.pick(&[0u64, 0, ms(100), ms(500), secs(1), secs(3), secs(9)]);
        let lb_ip: IpAddr = lbs[rng.usize_below(nlb)].parse().unwrap();
        let peer = SocketAddr::new(lb_ip, 20_000 + i as u16);
        let src_ip: IpAddr = sources[rng.usize_below(nsrc)].parse().unwrap();
        let src = SocketAddr::new(src_ip, 30_000 + i as u16);
        let dst: SocketAddr = if src.is_ipv4() { dst } else { "[2001:db8:ff::1]:25565".parse().unwrap() };
        let login = rng.chance(1, 5);
        let mut spec = ClientSpec::base(rng, if login { 2 } else { 1 });
        let (valid, effective, kind);
        match proxy {
            None => {
                valid = true;
                effective = peer;
                kind = "no_proxy";
            }
            Some((v1, v2)) => match rng.below(13) {
                0 | 1 | 2 => {
                    spec.preamble = Some(v1_header(&src, &dst));
                    valid = v1;
                    effective = src;
                    kind = if v1 { "v1" } else { "v1_disabled" };
                }
                3 | 4 | 5 => {
                    spec.preamble = Some(v2_header(&src, &dst, false));
                    valid = v2;
                    effective = src;
                    kind = if v2 { "v2" } else { "v2_disabled" };
                }
                6 => {
                    spec.preamble = Some(v2_header(&src, &dst, true));
                    valid = v2;
                    effective = peer;
                    kind = if v2 { "v2_local" } else { "v2_disabled" };
                }
                7 => {
                    spec.preamble = Some(b"PROXY UNKNOWN\r\n".to_vec());
                    valid = v1;
                    effective = peer;
                    kind = if v1 { "v1_unknown" } else { "v1_disabled" };
                }
                8 => {
                    spec.preamble = Some(b"PROXZ TCP4 1.2.3.4 5.6.7.8 1 2\r\n".to_vec());
                    valid = false;
                    effective = peer;
                    kind = "bad_signature";
                }
                9 => {
                    let mut h = if rng.chance(1, 2) { v1_header(&src, &dst) } else { v2_header(&src, &dst, false) };
                    let keep = rng.range(1, h.len() as u64 - 1) as usize;
                    h.truncate(keep);
                    spec.preamble = Some(h);
                    spec.mute_after = Some(0);
                    spec.close_after = None;
                    valid = false;
                    effective = peer;
                    kind = "truncated_then_eof";
                }
                10 => {
                    valid = false;
                    effective = peer;
                    kind = "absent";
                }
                12 => {
                    // part of a header (or nothing at all), then silence with the connection held open: the
                    // listener gives up at its deadline; nothing is served and no budget is consumed
                    let mut h = if rng.chance(1, 2) { v1_header(&src, &dst) } else { v2_header(&src, &dst, false) };
                    let keep = rng.range(0, h.len() as u64 - 1) as usize;
                    h.truncate(keep);
                    spec.preamble = if h.is_empty() { None } else { Some(h) };
                    spec.mute_after = Some(0);
                    spec.close_after = None;
                    valid = false;
                    effective = peer;
                    kind = "header_never_completes";
                }
                _ => {
                    // the announced transport is a datagram one: still a header that announces a source
                    spec.preamble = Some(match rng.below(4) {
                        0 | 1 => v2_header_dgram(&src, &dst),
                        2 => v2_header_padded(&src, &dst, *rng.pick(&[0u16, 100, 200, 228, 229, 300, 2000])),
                        _ => v2_header(&src, &dst, false),
                    });
                    valid = v2;
                    effective = src;
                    kind = if v2 { "v2" } else { "v2_disabled" };
                }
            },
        }
        spec.close_on_end_ns = if kind == "header_never_completes" { None } else { Some(0) };
        // a client with a valid header that hangs up after its first frame: admitted (and charged) all the same
        let hangup = valid && rng.chance(1, 8);
        if hangup {
            spec.close_after = Some((1, rng.chance(1, 3)));
        }
        // handshake hosts with a forwarded-address trailer (as IP-forwarding proxies write them): client-chosen text
        if rng.chance(1, 6) {
            spec.host = (*rng.pick(&["mc.example.org\0203.0.113.77\0069a79f444e94726a5befca90e38aaf5", "lobby\02001:db8::77\0x", "h\010.0.0.1\0"])).to_string();
        }
        // a returning player: transfer intent and a genuine cookie issued to the same host on an earlier connection (another port)
        if login && valid && rng.chance(1, 2) {
            spec.intent = 3;
            let id = Identity { name: format!("Returning{i}"), uuid: 0x7e70_0000_0000_0000_0000_0000_0000_0000u128 + i as u128, props: vec![] };
            let earlier = SocketAddr::new(effective.ip(), 60_000 + i as u16);
            spec.auth_cookie = Some(signed_cookie(b"proxy-secret", &cookie_json(crate::conn::Wall::default().base_s - 30, &earlier.to_string(), &id, None)));
        }
        // header and first frames may reach the server in one read
        spec.coalesce = rng.chance(1, 2);
        // a header may also trickle in: the connection is then admitted (and charged) when the header is
        // complete, not when it was accepted. Delays are chosen so that no two admissions share an instant.
        if slow_headers
            && kind != "truncated_then_eof"
            && let Some(p) = &spec.preamble
            && p.len() >= 2
            && rng.chance(1, 3)
        {
            let d = *rng.pick(&[ms(50), secs(1), secs(4)]) + ms(1 + i % 39);
            spec.cuts.push(Cut { at: rng.range(1, p.len() as u64 - 1), gate: Gate::Delay { ns: d }, spurious: 0 });
        }
        let mut c = NetClient { connect_at_ns: t, peer: peer.to_string(), spec, wplan: vec![] };
        if kind == "truncated_then_eof" {
            // the client closes right after the partial header: script mode with a single close
            c.spec.script = Some(vec![crate::client::Step::Close { reset: false }]);
            c.spec.mute_after = None;
        }
        clients.push(c);
        meta.push(Meta { valid, effective: effective.to_string(), kind: if hangup { format!("{kind}+hangup") } else { kind.to_string() } });
    }
    let services = Services {
        auth: Script::always(Some(0), AuthRes::Claim),
        discovery: Script::always(Some(0), DiscRes::Targets(vec![TargetSpec { id: "t0".into(), addr: "10.9.8.7:25565".into(), meta: Default::default() }])),
        ..Default::default()
    };
    C15Sc {
        net: NetScenario {
            seed: rng.next_u64(),
            // a short deadline makes the listener give up on silent clients inside the history (only when no valid header trickles in)
            cfg: NetCfg { secret, expiry: None, max_frame: None, timeout_ns: if !slow_headers && rng.chance(1, 2) { secs(2) } else { secs(30) }, proxy, limiter, use_start: rng.chance(1, 4), agones: false, secret_source: None, localization_from_services: false },
            wall: Default::default(),
            services,
            clients,
            stop_at_ns: None,
            stop_before: false,
            yields_before_stop: 0,
            relisten: false,
            cap_ns: t + secs(60),
        },
        meta,
    }
}

/// Decisions of a second real limiter fed with (virtual ns, ip) in order.
fn shadow(seed: u64, cfg: Option<(u64, usize)>, feed: &[(u64, IpAddr)]) -> Vec<bool> {
    let Some((d, l)) = cfg else {
        return vec![true; feed.len()];
    };
    let rt = new_runtime(seed);
    rt.block_on(async {
        let mut rl: RateLimiter<IpAddr> = RateLimiter::new(Duration::from_nanos(d), l);
        let mut now = 0u64;
        let mut out = vec![];
        for (t, ip) in feed {
            if *t > now {
                tokio::time::advance(Duration::from_nanos(t - now)).await;
                now = *t;
            }
            out.push(rl.enqueue(*ip));
        }
        out
    })
}

pub fn check(sc: &C15Sc, out: &NetOutcome, rep: &mut RunReport) {
    if !out.panics.is_empty() {
        rep.violate("no_panic", format!("panicked: {}", out.panics[0].replace('\n', " ")));
        return;
    }
    // feed the shadow limiter with the effective IPs of the valid connections, in accept order
    let mut feed: Vec<(u64, usize, IpAddr)> = vec![];
    for (i, (c, m)) in out.clients.iter().zip(sc.meta.iter()).enumerate() {
        if m.valid {
            let Some(t) = c.accepted_ns else {
                rep.violate("every_connection_is_accepted", format!("connection {i} ({}) was never taken from the accept queue", m.kind));
                return;
            };
            // admitted when its header is complete (at once unless the header trickles in)
            let plen = sc.net.clients[i].spec.preamble.as_ref().map(|p| p.len() as u64).unwrap_or(0);
            let t_hdr = if plen > 0 { PipeState::avail_at(&c.avail, plen).unwrap_or(t) } else { t };
            let ip: SocketAddr = m.effective.parse().unwrap();
            feed.push((t.max(t_hdr), i, ip.ip()));
        }
    }
    feed.sort();
    // two admissions at the same instant, one of them through a delayed header: their order is not the
    // scenario's to decide - no verdict
    for w in feed.windows(2) {
        if w[0].0 == w[1].0 && (!sc.net.clients[w[0].1].spec.cuts.is_empty() || !sc.net.clients[w[1].1].spec.cuts.is_empty()) {
            return;
        }
    }
    let fed_idx: Vec<usize> = feed.iter().map(|f| f.1).collect();
    let feed: Vec<(u64, IpAddr)> = feed.into_iter().map(|f| (f.0, f.2)).collect();
    let decisions = shadow(sc.net.seed, sc.net.cfg.limiter, &feed);
    let mut admitted = vec![false; out.clients.len()];
    for (k, i) in fed_idx.iter().enumerate() {
        admitted[*i] = decisions[k];
    }
    for (i, (c, m)) in out.clients.iter().zip(sc.meta.iter()).enumerate() {
        let served = c.rx_total > 0;
        if !m.valid {
            if served {
                rep.violate("invalid_header_is_not_served", format!("connection {i} ({}) without a valid PROXY header received {} bytes", m.kind, c.rx_total));
            }
            if c.closed_ns.is_none() {
                rep.violate("invalid_header_is_closed", format!("connection {i} ({}) was not closed", m.kind));
            }
            continue;
        }
        // a client that hung up after its handshake frame asked for nothing: whether it was "served" does not show
        // (it was admitted and charged all the same - the shadow limiter was fed with it)
        if m.kind.ends_with("+hangup") {
            if served && !admitted[i] {
                rep.violate("served_iff_limiter_admits_effective_ip", format!("connection {i} ({}) received {} bytes although the limiter refuses it", m.kind, c.rx_total));
            }
            continue;
        }
        if served != admitted[i] {
            rep.violate(
                "served_iff_limiter_admits_effective_ip",
                format!(
                    "connection {i} ({}, peer {}, effective {}): a limiter fed with the effective addresses of the valid connections {} it, but it was {}",
                    m.kind,
                    sc.net.clients[i].peer,
                    m.effective,
                    if admitted[i] { "admits" } else { "refuses" },
                    if served { "served" } else { "not served" }
                ),
            );
            return;
        }
        if !served && c.closed_ns.is_none() {
            rep.violate("refused_connection_is_closed", format!("connection {i} was refused but never closed"));
        }
        if served {
            // the address the services see
            let seen: Vec<&Value> = out
                .log
                .iter()
                .filter(|e| e.kind == "call" && (e.actor == "svc:status" || e.actor == "svc:auth" || e.actor == "svc:filter") && e.detail["client_addr"].as_str() == Some(&m.effective))
                .map(|e| &e.detail)
                .collect();
            // (started through passage::start the built-in adapters keep no call log; the issued cookie still shows the address)
            if seen.is_empty() && !sc.net.cfg.use_start {
                rep.violate("services_see_effective_address", format!("connection {i} ({}) was served but no service call carries its effective address {}", m.kind, m.effective));
            }
            if let Some(ck) = c.view.stored_bytes(AUTH_KEY) {
                match parse_cookie_body(&ck[32.min(ck.len())..]) {
                    Some(p) if p.addr.to_string() == m.effective => {}
                    Some(p) => rep.violate("cookie_bound_to_effective_address", format!("connection {i}: cookie bound to {}, effective address {}", p.addr, m.effective)),
                    None => rep.violate("cookie_bound_to_effective_address", "issued cookie does not parse".into()),
                }
            }
        }
    }
    // no service ever saw an address that is not some connection's effective address
    for e in out.log.iter().filter(|e| e.kind == "call" && e.detail.get("client_addr").is_some()) {
        let a = e.detail["client_addr"].as_str().unwrap_or("");
        if !sc.meta.iter().any(|m| m.valid && m.effective == a) {
            rep.violate("services_see_effective_address", format!("{} was called with client address {a}, which is no valid connection's effective address", e.actor));
        }
    }
}

impl Check for C15 {
    type Sc = C15Sc;
    fn id(&self) -> &'static str {
        "C15"
    }
    fn level(&self) -> &'static str {
        "exploration"
    }
    fn rule_text(&self) -> String {
        "arrival histories of 1-40 connections through 1-3 load-balancer peers at gaps from {0, 100 ms, 500 ms, 1 s, 3 s, 9 s}; PROXY off or v1 / v2 / both enabled; per connection a header from an independent writer: v1 TCP4/TCP6, v2 PROXY TCP4/TCP6, v2 LOCAL, v1 UNKNOWN, bad signature, truncated + EOF, absent, part of a header followed by silence until the listener's deadline (2 s or 30 s), or a version the configuration disables; announced sources from a pool of 1-5 IPs (one equal to a load-balancer IP); limiter off or duration 1 s / 8 s with limit 1-3; a fifth of the clients log in (so services and cookies see the address), the rest do a status exchange. Non-trivial = at least one connection was refused by the limiter or rejected for its header; distinct = distinct (event-order trace, header kinds) hash.".into()
    }
    fn assumptions(&self) -> Vec<String> {
        vec![
            "headers arrive with the first segment (stalls before the header are C16's)".into(),
            "the shadow is the real RateLimiter (so a limiter defect is not misreported here); it is fed at the accept instants, which equal the admission instants because header parsing is instantaneous here".into(),
        ]
    }
    fn components(&self) -> Value {
        json!({"real": ["passage::start (configuration -> limiter / PROXY settings -> Listener) in a quarter of the runs", "Listener::listen / handle", "proxy-header parser (ProxiedStream::create_from_tokio)", "RateLimiter", "Connection"], "stub": ["network (hook H1)", "clients + independent PROXY header writer", "services"]})
    }
    fn count(&self, tier: Tier) -> u64 {
        match tier {
            Tier::Quick => 100_000,
            Tier::Thorough => 3_000_000,
        }
    }
    fn generate(&self, rng: &mut Rng, _index: u64, _tier: Tier) -> C15Sc {
        generate(rng)
    }
    fn execute(&self, sc: &C15Sc) -> RunReport {
        if !net_domain_ok(&sc.net) {
            return RunReport::default();
        }
        if sc.meta.len() != sc.net.clients.len() || sc.net.stop_at_ns.is_some() || sc.net.cfg.timeout_ns < secs(2) || (sc.net.cfg.timeout_ns < secs(30) && sc.net.clients.iter().any(|c| !c.spec.cuts.is_empty())) {
            return RunReport::default();
        }
        // the run must go on long enough for every (possibly trickling) header and exchange to end
        if sc.net.cap_ns < sc.net.clients.iter().map(|c| c.connect_at_ns).max().unwrap_or(0) + secs(45) {
            return RunReport::default();
        }
        if sc.net.cfg.limiter.is_some_and(|(d, _)| d == 0) {
            return RunReport::default();
        }
        // the labels must still describe the clients (the shrinker may have altered either)
        for (c, m) in sc.net.clients.iter().zip(sc.meta.iter()) {
            let hangup = m.kind.ends_with("+hangup");
            if hangup != c.spec.close_after.is_some_and(|(k, _)| k == 1) {
                return RunReport::default();
            }
            let consistent = match (sc.net.cfg.proxy, m.kind.trim_end_matches("+hangup")) {
                (None, "no_proxy") => c.spec.preamble.is_none() && m.valid && m.effective == c.peer,
                (None, _) => false,
                (Some(_), "no_proxy") => false,
                (Some((v1, v2)), k) => {
                    let want_valid = match k {
                        "v1" | "v1_unknown" => v1,
                        "v2" | "v2_local" => v2,
                        _ => false,
                    };
                    want_valid == m.valid && if k == "header_never_completes" { c.spec.mute_after == Some(0) && c.spec.close_after.is_none() && c.spec.close_on_end_ns.is_none() } else { (k == "absent") == c.spec.preamble.is_none() }
                }
            };
            if !consistent || !c.spec.mutations.is_empty() || !c.wplan.is_empty() || !matches!(c.spec.intent, 1..=3) || !c.spec.send_info || c.spec.protocol <= 0 {
                return RunReport::default();
            }
            // cuts only inside a PROXY header, with a delay that keeps admissions at distinct instants
            let plen = c.spec.preamble.as_ref().map(|p| p.len() as u64).unwrap_or(0);
            if c.spec.cuts.len() > 1 || c.spec.cuts.iter().any(|k| k.at == 0 || k.at >= plen || !matches!(k.gate, Gate::Delay { ns } if ns % ms(50) >= ms(1) && ns % ms(50) <= ms(39))) {
                return RunReport::default();
            }
            if c.spec.script.is_some() != (m.kind.trim_end_matches("+hangup") == "truncated_then_eof") {
                return RunReport::default();
            }
        }
        let mut sorted = sc.net.clients.iter().map(|c| c.connect_at_ns);
        let mut prev = 0;
        if sorted.any(|t| {
            let bad = t < prev;
            prev = t;
            bad
        }) {
            return RunReport::default();
        }
        let out = run_net(&sc.net);
        let mut rep = RunReport {
            runs: 2,
            trace_hash: out.trace_hash(),
            full_hash: out.full_hash(),
            sim_ns: out.end_ns,
            ..Default::default()
        };
        rep.merge_counts(&out.faults, &out.probes);
        let mut h = crate::rng::Fnv(rep.trace_hash);
        if sc.net.clients.iter().any(|c| !c.spec.cuts.is_empty()) {
            *rep.faults.entry("proxy_header_trickles_in".into()).or_insert(0) += 1;
        }
        if sc.net.cfg.use_start {
            *rep.faults.entry("started_through_the_application_entry_point".into()).or_insert(0) += 1;
        }
        for m in &sc.meta {
            h.write_str(&m.kind);
            *rep.faults.entry(format!("header_{}", m.kind)).or_insert(0) += 1;
        }
        rep.trace_hash = h.0;
        rep.nontrivial = out.clients.iter().any(|c| c.rx_total == 0);
        let refused = out.clients.iter().zip(sc.meta.iter()).filter(|(c, m)| m.valid && c.rx_total == 0).count() as u64;
        if refused > 0 {
            *rep.probes.entry("limiter_refused_connection".into()).or_insert(0) += refused;
        }
        check(sc, &out, &mut rep);
        rep
    }
}
