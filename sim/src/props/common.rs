//! Helpers shared by the Conn-sim checks: report skeleton, independent auth-cookie builder and
//! acceptance predicate, identity extraction from the recorded history.

use crate::ccrypto::{hmac_sha256, sign_cookie};
use crate::conn::{ConnOutcome, ConnScenario};
use crate::rng::Rng;
use crate::runner::RunReport;
use crate::services::{PropSpec, TargetSpec};
use serde_json::{Value, json};
use std::net::SocketAddr;

pub const AUTH_KEY: &str = "passage:authentication";
pub const SESSION_KEY: &str = "passage:session";

pub fn base_report(out: &ConnOutcome) -> RunReport {
    let mut rep = RunReport {
        runs: 1,
        trace_hash: out.trace_hash(),
        full_hash: out.full_hash(),
        sim_ns: out.end_ns,
        ..Default::default()
    };
    rep.merge_counts(&out.faults, &out.probes);
    rep
}

pub fn uuid_hyph(u: u128) -> String {
    let h = format!("{u:032x}");
    format!("{}-{}-{}-{}-{}", &h[0..8], &h[8..12], &h[12..16], &h[16..20], &h[20..32])
}

pub fn uuid_from_any(s: &str) -> Option<u128> {
    let h: String = s.chars().filter(|c| *c != '-').collect();
    if h.len() != 32 {
        return None;
    }
    u128::from_str_radix(&h, 16).ok()
}

#[derive(Clone, Debug, PartialEq)]
pub struct Identity {
    pub name: String,
    pub uuid: u128,
    pub props: Vec<PropSpec>,
}

/// The JSON body of an authentication cookie, written by hand (field names from the wire format).
pub fn cookie_json(
    timestamp: u64,
    client_addr: &str,
    id: &Identity,
    target: Option<&str>,
) -> Vec<u8> {
    let props: Vec<Value> = id
        .props
        .iter()
        .map(|p| json!({"name": p.name, "value": p.value, "signature": p.signature}))
        .collect();
    let v = json!({
        "timestamp": timestamp,
        "client_addr": client_addr,
        "user_name": id.name,
        "user_id": uuid_hyph(id.uuid),
        "target": target,
        "profile_properties": props,
        "extra": {},
    });
    serde_json::to_vec(&v).unwrap()
}

pub fn signed_cookie(secret: &[u8], body: &[u8]) -> Vec<u8> {
    sign_cookie(secret, body)
}

#[derive(Clone, Debug)]
pub struct ParsedCookie {
    pub timestamp: u64,
    pub addr: SocketAddr,
    pub id: Identity,
    pub target: Option<String>,
}

/// Independent parse of the cookie body: required fields with the right JSON types.
pub fn parse_cookie_body(body: &[u8]) -> Option<ParsedCookie> {
    let v: Value = serde_json::from_slice(body).ok()?;
    let o = v.as_object()?;
    let timestamp = o.get("timestamp")?.as_u64()?;
    let addr: SocketAddr = o.get("client_addr")?.as_str()?.parse().ok()?;
    let name = o.get("user_name")?.as_str()?.to_string();
    let uuid = uuid_from_any(o.get("user_id")?.as_str()?)?;
    let target = match o.get("target") {
        None | Some(Value::Null) => None,
        Some(Value::String(s)) => Some(s.clone()),
        _ => return None,
    };
    let mut props = vec![];
    for p in o.get("profile_properties")?.as_array()? {
        let p = p.as_object()?;
        props.push(PropSpec {
            name: p.get("name")?.as_str()?.to_string(),
            value: p.get("value")?.as_str()?.to_string(),
            signature: match p.get("signature") {
                None | Some(Value::Null) => None,
                Some(Value::String(s)) => Some(s.clone()),
                _ => return None,
            },
        });
    }
    if let Some(e) = o.get("extra") {
        for (_, x) in e.as_object()? {
            x.as_str()?;
        }
    }
    Some(ParsedCookie {
        timestamp,
        addr,
        id: Identity { name, uuid, props },
        target,
    })
}

/// The acceptance predicate of C02, recomputed from the property text: Transfer intent, secret
/// configured, correct tag, same IP, not older than the expiry. Returns the identity to be used.
pub fn cookie_accepted(
    intent: i32,
    secret: Option<&[u8]>,
    presented: Option<&[u8]>,
    client_addr: &str,
    now_s: u64,
    expiry: u64,
) -> Option<ParsedCookie> {
    if intent != 3 {
        return None;
    }
    let secret = secret?;
    let p = presented?;
    if p.len() < 32 {
        return None;
    }
    let tag = hmac_sha256(secret, &p[32..]);
    if tag[..] != p[..32] {
        return None;
    }
    let c = parse_cookie_body(&p[32..])?;
    let me: SocketAddr = client_addr.parse().ok()?;
    if c.addr.ip() != me.ip() {
        return None;
    }
    if u128::from(c.timestamp) + u128::from(expiry) < u128::from(now_s) {
        return None;
    }
    Some(c)
}

pub fn expiry_of(sc: &ConnScenario) -> u64 {
    sc.cfg.expiry.unwrap_or(6 * 60 * 60)
}

/// Wall-clock second at which the server evaluated the cookie: the time the auth cookie response
/// frame was handed to the pipe (the server handles it at the same virtual instant unless the
/// transport plan delays it; callers that delay frames must not use this).
pub fn wall_at(sc: &ConnScenario, t_ns: u64) -> u64 {
    sc.wall.at(t_ns)
}

pub fn login_success_identity(out: &ConnOutcome) -> Option<(String, u128)> {
    let p = out.view.first("LoginSuccess")?;
    Some((
        p.fields["name"].as_str()?.to_string(),
        u128::from_str_radix(p.fields["uuid"].as_str()?, 16).ok()?,
    ))
}

pub fn svc_user(detail: &Value) -> Option<(String, u128)> {
    Some((
        detail["name"].as_str()?.to_string(),
        u128::from_str_radix(detail["uuid"].as_str()?, 16).ok()?,
    ))
}

pub fn auth_store_cookie(out: &ConnOutcome) -> Option<Vec<u8>> {
    out.view
        .all("StoreCookie")
        .into_iter()
        .find(|p| p.fields["key"].as_str() == Some(AUTH_KEY))
        .map(|p| crate::world::unhex(p.fields["payload"].as_str().unwrap_or("")))
}

pub fn session_store_cookie(out: &ConnOutcome) -> Option<Vec<u8>> {
    out.view
        .all("StoreCookie")
        .into_iter()
        .find(|p| p.fields["key"].as_str() == Some(SESSION_KEY))
        .map(|p| crate::world::unhex(p.fields["payload"].as_str().unwrap_or("")))
}

pub fn gen_name(rng: &mut Rng) -> String {
    let pool = ["Steve", "Alex", "Notch", "jeb_", "Dinnerbone", "x", "Player_16_chars_", "Ünï", "linked.SomeLongPlayerName", "A_name_well_beyond_the_sixteen_characters_of_vanilla"];
    (*rng.pick(&pool)).to_string()
}

pub fn gen_uuid(rng: &mut Rng) -> u128 {
    (u128::from(rng.next_u64()) << 64) | u128::from(rng.next_u64())
}

pub fn gen_props(rng: &mut Rng) -> Vec<PropSpec> {
    let mut n = *rng.pick(&[0usize, 0, 1, 2, 5]);
    // real profiles are big: a textures property is 1-3 KB of base64 with a 684-character signature
    // (kept below the default maximum frame of 10 000 bytes, so that a cookie carrying them can be presented)
    let big = rng.chance(1, 6);
    if big {
        n = n.min(3);
    }
    (0..n)
        .map(|i| {
            let vlen = if big { *rng.pick(&[500usize, 700, 900]) } else { *[4usize, 20, 60].get(i % 3).unwrap() };
            PropSpec {
                // (a name may occur twice, e.g. a signed and an unsigned `textures` entry: the list is recorded as it was vouched for)
                name: if i == 0 || (i == 2 && i % 2 == 0 && vlen % 3 != 1) { "textures".into() } else { format!("p{i}") },
                value: crate::world::hex(&rng.bytes(vlen)),
                signature: if rng.chance(1, 2) { Some(crate::world::hex(&rng.bytes(if big { 342 } else { 16 }))) } else { None },
            }
        })
        .collect()
}

pub fn gen_addr(rng: &mut Rng) -> String {
    match rng.below(5) {
        0 => format!("[2001:db8::{:x}]:{}", rng.range(1, 0xffff), rng.range(1024, 65535)),
        // an IPv4 client as a dual-stack listener reports it
        4 => format!("[::ffff:{}.{}.{}.{}]:{}", rng.range(1, 223), rng.below(256), rng.below(256), rng.range(1, 254), rng.range(1024, 65535)),
        _ => format!(
            "{}.{}.{}.{}:{}",
            rng.range(1, 223),
            rng.below(256),
            rng.below(256),
            rng.range(1, 254),
            rng.range(1024, 65535)
        ),
    }
}

pub fn gen_target(rng: &mut Rng, i: usize) -> TargetSpec {
    let addr = match rng.below(6) {
        0 => format!("[fd00::{:x}]:{}", rng.range(1, 0xffff), rng.range(1, 65535)),
        // legal but unusual: IPv4-mapped and IPv4-compatible IPv6, loopback, unspecified, port boundaries
        4 => format!("[::ffff:10.{}.{}.{}]:{}", rng.below(256), rng.below(256), rng.range(1, 254), rng.range(1, 65535)),
        5 => (*rng.pick(&["[::1]:25565", "[::]:1", "0.0.0.0:65535", "[::10.0.0.9]:25566", "127.0.0.1:0", "255.255.255.255:1", "[2001:db8:0:0:1:0:0:1]:443", "10.0.0.7:16384", "10.0.0.7:16383", "10.0.0.7:128", "10.0.0.7:127", "10.0.0.7:32768", "[fd00::7]:16384", "10.0.0.7:255", "10.0.0.7:256"])).to_string(),
        _ => format!("10.{}.{}.{}:{}", rng.below(256), rng.below(256), rng.range(1, 254), rng.range(1, 65535)),
    };
    let mut meta = std::collections::BTreeMap::new();
    if rng.chance(1, 2) {
        meta.insert("players".to_string(), rng.below(100).to_string());
    }
    if rng.chance(1, 4) {
        meta.insert("state".to_string(), "Ready".to_string());
    }
    TargetSpec {
        id: format!("gs-{i}-{:x}", rng.below(0xffff)),
        addr,
        meta,
    }
}

/// Every back-end call of a connection carries that connection's client address, whatever a cookie says.
pub fn check_service_addresses(sc: &ConnScenario, out: &ConnOutcome, rep: &mut RunReport) {
    for e in out.log.iter().filter(|e| e.kind == "call" && e.actor.starts_with("svc:")) {
        if let Some(a) = e.detail.get("client_addr").and_then(|a| a.as_str())
            && a.parse::<SocketAddr>().ok() != sc.cfg.client_addr.parse::<SocketAddr>().ok()
        {
            rep.violate("services_see_connection_address", format!("{} was called with client address {a}, the connection's client address is {}", e.actor, sc.cfg.client_addr));
        }
    }
}

pub fn secs(s: u64) -> u64 {
    s * 1_000_000_000
}

pub fn ms(s: u64) -> u64 {
    s * 1_000_000
}

/// Scenarios outside every Conn-sim check's domain (the shrinker may propose them).
pub fn conn_domain_ok(sc: &ConnScenario) -> bool {
    sc.cap_ns >= secs(60)
        && sc.cfg.client_addr.parse::<SocketAddr>().is_ok()
        && sc.services.filter_hostname.as_ref().is_none_or(|h| passage_adapters::filter::option::OptionFilterAdapter::new(Some(h.clone()), ()).is_ok())
}

/// Net-sim scenarios outside every check's domain (the shrinker may propose them).
pub fn net_domain_ok(sc: &crate::net::NetScenario) -> bool {
    sc.cfg.limiter.is_none_or(|(d, _)| d >= 1_000_000)
        && (sc.cfg.timeout_ns >= 1_000_000_000 || sc.cfg.timeout_ns == 0)
        && sc.clients.iter().all(|c| c.peer.parse::<SocketAddr>().is_ok())
        && {
            let mut peers: Vec<&String> = sc.clients.iter().map(|c| &c.peer).collect();
            peers.sort();
            peers.windows(2).all(|w| w[0] != w[1])
        }
}

/// Transport faults that cost no virtual time, so that oracles which rely on "the server handles a
/// frame at the instant it is sent" stay exact: frames coalesced into one read, frames cut at
/// arbitrary offsets (down to one byte at a time), spurious `Pending` on reads and writes, short
/// write acceptance. Drawn after everything else so the rest of the scenario is unchanged.
pub fn zero_time_noise(rng: &mut Rng, sc: &mut ConnScenario) {
    use crate::client::Cut;
    use crate::pipe::{Gate, WRule};
    match rng.below(8) {
        0 | 1 | 2 => return,
        3 => {}
        4 | 5 => {
            for _ in 0..rng.range(1, 8) {
                sc.client.cuts.push(Cut { at: rng.range(1, 900), gate: Gate::Now, spurious: rng.below(3) as u8 });
            }
        }
        _ => {
            let start = rng.below(500);
            for o in start..start + rng.range(10, 200) {
                sc.client.cuts.push(Cut { at: o.max(1), gate: Gate::Now, spurious: u8::from(rng.chance(1, 8)) });
            }
        }
    }
    sc.client.coalesce = rng.chance(2, 3);
    if rng.chance(1, 8) {
        sc.client.len_pad = rng.range(1, 3) as u8;
    }
    if rng.chance(1, 2) {
        for _ in 0..rng.range(1, 10) {
            sc.wplan.push(match rng.below(4) {
                0 => WRule::Accept { max: 1 },
                1 => WRule::Accept { max: rng.range(2, 40) as usize },
                2 => WRule::Spurious,
                _ => WRule::Accept { max: 100_000 },
            });
        }
    }
}

/// True when the scenario's transport plan contains nothing that lets virtual time pass.
pub fn transport_is_zero_time(sc: &ConnScenario) -> bool {
    use crate::pipe::{Gate, WRule};
    sc.client.cuts.iter().all(|c| matches!(c.gate, Gate::Now)) && sc.wplan.iter().all(|w| matches!(w, WRule::Accept { .. } | WRule::Spurious))
}

/// A write fault aimed at one Keep Alive of the undisturbed execution `refo`: every earlier write call is
/// accepted whole, the call that carries the Keep Alive is held back - entirely or after a few bytes -
/// until the back-end call running at that moment completes (so the future writing it is dropped
/// mid-write) or for up to three seconds. Returns false if the execution has no Keep Alive.
pub fn aim_hold_at_keep_alive(rng: &mut Rng, sc: &mut ConnScenario, refo: &ConnOutcome) -> bool {
    use crate::pipe::WRule;
    let kas: Vec<usize> = refo.view.packets.iter().enumerate().filter(|(_, p)| p.kind == "KeepAlive").map(|(i, _)| i).collect();
    if kas.is_empty() {
        return false;
    }
    let ki = *rng.pick(&kas);
    let off: usize = refo.view.packets[..ki].iter().map(|p| p.len + crate::codec::varint(p.len as i32).len()).sum();
    let (mut acc, mut call) = (0usize, 0usize);
    for (_, chunk) in &refo.pipe.out {
        if acc + chunk.len() > off {
            break;
        }
        acc += chunk.len();
        call += 1;
    }
    sc.wplan.clear();
    for _ in 0..call {
        sc.wplan.push(WRule::Accept { max: 1_000_000 });
    }
    if rng.chance(1, 2) {
        sc.wplan.push(WRule::Accept { max: rng.range(1, 9) as usize });
    }
    let t_ka = refo.view.packets[ki].t_ns;
    let next_done = ["discovery", "filter", "strategy"]
        .iter()
        .filter_map(|n| refo.log.iter().find(|e| e.actor == format!("svc:{n}") && e.kind == "done").map(|e| (format!("{n}_done"), e.t_ns)))
        .filter(|(_, t)| *t > t_ka && *t - t_ka < secs(10))
        .min_by_key(|(_, t)| *t);
    match next_done {
        Some((name, _)) if rng.chance(3, 4) => sc.wplan.push(WRule::PendEvent { name, ns: *rng.pick(&[0u64, 1_000_000, 700_000_000]) }),
        _ => sc.wplan.push(WRule::Pend { ns: ms(rng.range(1, 3000)) }),
    }
    true
}

/// True when the write plan is a hold of the kind `aim_hold_at_keep_alive` makes (bounded, so a prompt client stays prompt).
pub fn wplan_is_bounded_hold(sc: &ConnScenario) -> bool {
    use crate::pipe::WRule;
    let hold: u64 = sc.wplan.iter().map(|w| match w { WRule::Pend { ns } => *ns, WRule::PendEvent { ns, .. } => secs(10) + *ns, _ => 0 }).sum();
    sc.wplan.iter().all(|w| matches!(w, WRule::Accept { .. } | WRule::Pend { .. } | WRule::PendEvent { .. } | WRule::Spurious)) && hold <= secs(14)
}

/// An earlier connection of the same process that ended abruptly while the server still had output
/// queued: the transport takes a few bytes of the n-th write and then breaks, or the client resets.
/// (Whatever the code under simulation recycles between connections - a pooled buffer, a cached
/// frame - is left in the state such an end leaves it in.)
pub fn abrupt_prelude(rng: &mut Rng, sc: &ConnScenario) -> ConnScenario {
    use crate::pipe::WRule;
    let mut p = sc.clone();
    p.prelude.clear();
    p.seed ^= 0x0abb_0abb;
    p.client.rng ^= 0xab;
    p.client.cuts.clear();
    p.wplan.clear();
    for _ in 0..rng.below(5) {
        p.wplan.push(WRule::Accept { max: 1_000_000 });
    }
    p.wplan.push(WRule::Accept { max: rng.range(1, 6) as usize });
    p.wplan.push(WRule::Broken);
    p.cap_ns = p.cap_ns.min(secs(120)).max(secs(60));
    p
}

/// Client Information as clients really send it: any view distance a signed byte can hold, every legal ordinal.
pub fn gen_info(rng: &mut Rng) -> (i8, i32, i32, i32, u8) {
    (*rng.pick(&[-128i8, -1, 0, 2, 10, 32, 127]), rng.below(3) as i32, rng.below(2) as i32, rng.below(3) as i32, rng.below(256) as u8)
}

/// The same cookie body with the fields in the order (and the property spelling) in which the router itself writes
/// them - what a client that was issued a cookie really holds.
pub fn cookie_json_as_issued(timestamp: u64, client_addr: &str, id: &Identity, target: Option<&str>) -> Vec<u8> {
    let q = |s: &str| serde_json::to_string(s).unwrap();
    let props: Vec<String> = id
        .props
        .iter()
        .map(|p| format!("{{\"name\":{},\"value\":{},\"signature\":{}}}", q(&p.name), q(&p.value), p.signature.as_deref().map(q).unwrap_or_else(|| "null".into())))
        .collect();
    format!(
        "{{\"timestamp\":{timestamp},\"client_addr\":{},\"user_name\":{},\"user_id\":{},\"target\":{},\"profile_properties\":[{}],\"extra\":{{}}}}",
        q(client_addr),
        q(&id.name),
        q(&uuid_hyph(id.uuid)),
        target.map(q).unwrap_or_else(|| "null".into()),
        props.join(",")
    )
    .into_bytes()
}
