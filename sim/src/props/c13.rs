//! C13 - per-address rate limiting is bounded, fair between addresses and self-cleaning.
//! The real `RateLimiter` driven under tokio virtual time by generated arrival histories; the
//! oracle is black-box (bounds, metamorphic and differential relations), plus the hook accessor
//! `tracked_keys()` for the self-cleaning part.

use crate::conn::new_runtime;
use crate::rng::{Fnv, Rng};
use crate::runner::{Check, RunReport, Tier};
use passage_protocol::rate_limiter::RateLimiter;
use serde::{Deserialize, Serialize};
use serde_json::{Value, json};
use std::collections::{BTreeMap, BTreeSet};
use std::time::Duration;

#[derive(Clone, Debug, Serialize, Deserialize, PartialEq)]
pub struct LimSc {
    pub seed: u64,
    pub limit: usize,
    pub duration_ns: u64,
    /// (virtual ns since the previous attempt, key)
    pub ops: Vec<(u64, u32)>,
}

#[derive(Clone, Debug, PartialEq)]
struct Dec {
    t: u64,
    key: u32,
    admitted: bool,
    tracked: usize,
}

/// Runs a history on a fresh real limiter. `only`: attempts of other keys are skipped (time still passes).
fn run_history(sc: &LimSc, ops: &[(u64, u32)], only: Option<u32>) -> Vec<Option<Dec>> {
    let rt = new_runtime(sc.seed);
    rt.block_on(async {
        let mut rl: RateLimiter<u32> = RateLimiter::new(Duration::from_nanos(sc.duration_ns), sc.limit);
        let mut t = 0u64;
        let mut out = Vec::with_capacity(ops.len());
        for (dt, key) in ops {
            if *dt > 0 {
                tokio::time::advance(Duration::from_nanos(*dt)).await;
            }
            t += dt;
            if only.is_some_and(|k| k != *key) {
                out.push(None);
                continue;
            }
            let admitted = rl.enqueue(*key);
            out.push(Some(Dec {
                t,
                key: *key,
                admitted,
                tracked: rl.tracked_keys(),
            }));
        }
        out
    })
}

pub struct C13;

impl Check for C13 {
    type Sc = LimSc;
    fn id(&self) -> &'static str {
        "C13"
    }
    fn level(&self) -> &'static str {
        "exploration"
    }
    fn rule_text(&self) -> String {
        "arrival histories of up to 200 attempts over 1-40 keys (a sixth of them address scans where nearly every attempt uses a fresh key), limit 1-20, duration from {1 ms, 1 s, 8 s, 60 s} or (a third) any whole second up to 600 s / any millisecond below 1 s / an odd value, inter-arrival times zero / sub-window / exactly d / d+-1 ns / 2d / 4d / long idle gaps, bursts and many one-shot keys, run against the real RateLimiter under tokio virtual time; each evaluation also re-runs the history with rejected attempts duplicated, and per key in isolation. Non-trivial = at least one attempt was rejected and at least one window rolled; distinct = distinct hash of the (key, decision) sequence with coarse timing class.".into()
    }
    fn assumptions(&self) -> Vec<String> {
        vec![
            "tracked_keys() (hook H3) returns the same value the rate_limiter_size gauge publishes (visible in the source: both read buckets.len())".into(),
            "tokio::time::advance moves tokio::time::Instant exactly by the requested duration".into(),
        ]
    }
    fn components(&self) -> Value {
        json!({"real": ["passage_protocol::rate_limiter::RateLimiter", "tokio paused clock"], "stub": ["arrival process (generated)"]})
    }
    fn count(&self, tier: Tier) -> u64 {
        match tier {
            Tier::Quick => 400_000,
            Tier::Thorough => 30_000_000,
        }
    }

    fn generate(&self, rng: &mut Rng, _index: u64, _tier: Tier) -> LimSc {
        let mut d = *rng.pick(&[1_000_000u64, 1_000_000_000, 8_000_000_000, 60_000_000_000]);
        // any window length an operator may configure: whole seconds up to ten minutes, some milliseconds, odd values
        if rng.chance(1, 3) {
            d = match rng.below(4) {
                0 | 1 => rng.range(1, 600) * 1_000_000_000,
                2 => rng.range(1, 999) * 1_000_000,
                _ => rng.range(1_000, 3_000_000_000),
            };
        }
        let limit = *rng.pick(&[1usize, 1, 2, 3, 5, 10, 20]);
        let nkeys = *rng.pick(&[1u64, 1, 2, 3, 8, 40]);
        let nmax = if rng.chance(1, 4) { 200 } else { 40 };
        let n = rng.range(1, nmax);
        let style = rng.below(4);
        // address scans / rotating addresses: (almost) every attempt comes from a key never seen before
        let scan = rng.chance(1, 6);
        let mut ops = vec![];
        let mut oneshot = 1000u32;
        // the limiter has been up for a while (weeks: millisecond counters of 32 bits wrap after 49.7 days)
        match rng.below(12) {
            0 => ops.push(((1u64 << 32) * 1_000_000 - rng.below(3 * d), 0)),
            1 => ops.push(((1u64 << 31) * 1_000_000 - rng.below(3 * d), 0)),
            2 => ops.push((400 * 86_400 * 1_000_000_000, 0)),
            _ => {}
        }
        // very many addresses at once (a scan) somewhere in the history: the table is big while the keys of interest come back
        let scan_at = if rng.chance(1, 1000) { Some(rng.below(n)) } else { None };
        for opi in 0..n {
            if scan_at == Some(opi) {
                for _ in 0..rng.range(66_000, 70_000) {
                    oneshot += 1;
                    ops.push((if rng.chance(1, 200) { d / 500 } else { 0 }, oneshot));
                }
            }
            let dt = match style {
                0 => 0,
                _ => match rng.below(12) {
                    0 | 1 | 2 => 0,
                    3 => rng.below(d),
                    4 => d,
                    5 => d - 1,
                    6 => d + 1,
                    7 => 2 * d,
                    8 => 4 * d,
                    9 => d / 2,
                    10 => rng.below(d / 10 + 1),
                    _ => rng.range(2 * d, 6 * d),
                },
            };
            let key = if rng.chance(1, 10) || (scan && rng.chance(19, 20)) {
                oneshot += 1;
                oneshot
            } else {
                rng.below(nkeys) as u32
            };
            ops.push((dt, key));
        }
        LimSc {
            seed: rng.next_u64(),
            limit,
            duration_ns: d,
            ops,
        }
    }

    fn execute(&self, sc: &LimSc) -> RunReport {
        let mut rep = RunReport::default();
        if sc.limit == 0 || sc.duration_ns == 0 || sc.ops.len() > 200_000 {
            return rep; // outside the property's domain (limit >= 1, duration > 0)
        }
        let d = sc.duration_ns;
        // a limiter that panics on some history takes the listener's lock (and with it every later connection) down
        let _ = crate::alloc::take_panics();
        let first = std::panic::catch_unwind(std::panic::AssertUnwindSafe(|| run_history(sc, &sc.ops, None)));
        let base: Vec<Dec> = match first {
            Ok(v) => v.into_iter().flatten().collect(),
            Err(_) => {
                let msg = crate::alloc::take_panics().first().cloned().unwrap_or_default().replace('\n', " ");
                rep.runs = 1;
                rep.violate("no_panic", format!("the limiter panicked on this history: {msg}"));
                return rep;
            }
        };
        rep.runs = 1;
        rep.sim_ns = base.last().map(|x| x.t).unwrap_or(0);
        let mut th = Fnv::default();
        let mut any_reject = false;
        let mut any_roll = false;

        // per key: window starts as in the property's mechanism, bounds (1) (2) (4)
        let mut by_key: BTreeMap<u32, Vec<&Dec>> = BTreeMap::new();
        for x in &base {
            by_key.entry(x.key).or_default().push(x);
            th.write_u64(u64::from(x.key));
            th.write_u64(u64::from(x.admitted));
        }
        for (key, xs) in &by_key {
            let mut start = xs[0].t;
            let mut in_window = 0usize;
            let mut last_attempt: Option<u64> = None;
            for x in xs {
                if x.t - start >= d {
                    if x.t - start == d {
                        *rep.probes.entry("window_roll_on_exact_boundary".into()).or_insert(0) += 1;
                    }
                    start = x.t;
                    in_window = 0;
                    any_roll = true;
                    th.write_str("roll");
                }
                if x.admitted {
                    in_window += 1;
                    if in_window > sc.limit {
                        rep.violate(
                            "per_window_bound",
                            format!("key {key}: {in_window} admissions between two window starts (window started at {start} ns), limit {}", sc.limit),
                        );
                    }
                } else {
                    any_reject = true;
                }
                let silent = last_attempt.is_none_or(|l| x.t - l >= 2 * d);
                if silent && !x.admitted {
                    rep.violate(
                        "readmit_after_idle",
                        format!("key {key} rejected at {} ns although it made no attempt for >= 2 x duration (last attempt {:?})", x.t, last_attempt),
                    );
                }
                if silent && last_attempt.is_some() {
                    *rep.probes.entry("attempt_after_2d_idle".into()).or_insert(0) += 1;
                }
                last_attempt = Some(x.t);
            }
            // (2) sliding scan over admitted timestamps: any [t, t+d) holds <= 2*limit
            let adm: Vec<u64> = xs.iter().filter(|x| x.admitted).map(|x| x.t).collect();
            let mut lo = 0usize;
            for hi in 0..adm.len() {
                while adm[hi] - adm[lo] >= d {
                    lo += 1;
                }
                if hi - lo + 1 > 2 * sc.limit {
                    rep.violate(
                        "sliding_bound",
                        format!("key {key}: {} admissions within one duration ending at {} ns, limit {}", hi - lo + 1, adm[hi], sc.limit),
                    );
                    break;
                }
            }
        }

        // (7) tracked keys bounded by keys that attempted within the last 4d, at every admitted attempt
        {
            let mut last_seen: BTreeMap<u32, u64> = BTreeMap::new();
            let mut prev_tracked = 0usize;
            let big = base.len() > 5000;
            for (xi, x) in base.iter().enumerate() {
                last_seen.insert(x.key, x.t);
                // (huge histories: the quadratic count is sampled)
                if x.admitted && (!big || xi % 997 == 0 || xi + 50 > base.len()) {
                    let recent = last_seen.values().filter(|t| x.t - **t <= 4 * d).count();
                    if x.tracked > recent {
                        rep.violate(
                            "tracked_keys_bound",
                            format!("{} keys tracked at {} ns but only {recent} keys attempted within the last 4 durations", x.tracked, x.t),
                        );
                    }
                    if x.tracked < prev_tracked {
                        *rep.probes.entry("cleanup_fired".into()).or_insert(0) += 1;
                        th.write_str("cleanup");
                    }
                    prev_tracked = x.tracked;
                }
            }
        }

        // (3a) metamorphic: duplicate every rejected attempt at the same instant
        if any_reject {
            let mut dup_ops = vec![];
            let mut orig_pos = vec![];
            let mut bi = 0usize;
            for (dt, key) in &sc.ops {
                orig_pos.push(dup_ops.len());
                dup_ops.push((*dt, *key));
                if !base[bi].admitted {
                    dup_ops.push((0, *key));
                }
                bi += 1;
            }
            let dup: Vec<Dec> = run_history(sc, &dup_ops, None).into_iter().flatten().collect();
            rep.runs += 1;
            for (i, pos) in orig_pos.iter().enumerate() {
                if dup[*pos].admitted != base[i].admitted {
                    rep.violate(
                        "rejected_attempts_consume_nothing",
                        format!("attempt #{i} (key {}, {} ns) decided {} but {} once earlier rejected attempts were repeated", base[i].key, base[i].t, base[i].admitted, dup[*pos].admitted),
                    );
                    break;
                }
                if !base[i].admitted && dup[*pos + 1].admitted {
                    rep.violate(
                        "rejected_attempts_consume_nothing",
                        format!("repeating rejected attempt #{i} at the same instant got admitted"),
                    );
                    break;
                }
            }
        }

        // (5)(6) differential: a key alone gets the same decisions (cleanup fires at other moments)
        // (keys that come back are the interesting ones; one-shot keys only if there is nothing else)
        let mut keys: Vec<u32> = by_key.iter().filter(|(_, xs)| xs.len() > 1).map(|(k, _)| *k).collect();
        if keys.is_empty() {
            keys = by_key.keys().copied().collect();
        }
        if by_key.len() > 1 {
            let mut chosen = BTreeSet::new();
            let mut r = Rng::new(sc.seed ^ 0x55);
            for _ in 0..3 {
                chosen.insert(*r.pick(&keys));
            }
            for k in chosen {
                let solo = run_history(sc, &sc.ops, Some(k));
                rep.runs += 1;
                for (i, s) in solo.iter().enumerate() {
                    if let Some(s) = s
                        && s.admitted != base[i].admitted
                    {
                        rep.violate(
                            "keys_independent",
                            format!("attempt #{i} of key {k} at {} ns decided {} in the mixed history but {} when the key is alone", s.t, base[i].admitted, s.admitted),
                        );
                        break;
                    }
                }
            }
        }
        *rep.faults.entry("clock_advance".into()).or_insert(0) += sc.ops.iter().filter(|o| o.0 > 0).count() as u64;
        *rep.faults.entry("burst_same_instant".into()).or_insert(0) += sc.ops.iter().filter(|o| o.0 == 0).count() as u64;
        rep.nontrivial = any_reject && any_roll;
        rep.trace_hash = th.0;
        let mut fh = Fnv::default();
        for x in &base {
            fh.write_u64(x.t);
            fh.write_u64(u64::from(x.key));
            fh.write_u64(u64::from(x.admitted));
            fh.write_u64(x.tracked as u64);
        }
        rep.full_hash = fh.0;
        rep
    }
}
