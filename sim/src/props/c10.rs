//! C10 - issued cookies are verifiable, complete, and accepted on the next transfer.
//! Two-connection histories: authenticate and get routed, then reconnect with what was stored.

use super::common::*;
use crate::ccrypto::hmac_sha256;
use crate::client::ClientSpec;
use crate::conn::{ConnCfg, ConnOutcome, ConnScenario, Wall, run_conn};
use crate::rng::Rng;
use crate::runner::{Check, RunReport, Tier};
use crate::services::{AuthRes, DiscRes, PropSpec, Script, Services, StratRes};
use serde::{Deserialize, Serialize};
use serde_json::{Value, json};
use std::net::SocketAddr;

pub struct C10;

#[derive(Clone, Debug, Serialize, Deserialize, PartialEq)]
pub struct C10Sc {
    pub first: ConnScenario,
    /// wall-clock seconds between the start of the two connections (may be negative: clock stepped back)
    pub gap_s: i64,
    pub second_port_xor: u16,
    pub second_seed: u64,
    /// the client presents the session cookie it stored (if any) on the second connection
    pub present_session: bool,
    /// the second connection is handled under another configured expiry (a restart with a changed
    /// configuration, or another instance sharing the secret)
    #[serde(default)]
    pub second_expiry: Option<u64>,
    /// the second client takes this long before it answers the cookie request (the wall clock is then
    /// somewhere inside a second, not at its start)
    #[serde(default)]
    pub second_think_ns: u64,
    /// the first client's session cookie is not a readable session cookie
    #[serde(default)]
    pub unreadable_session: bool,
}

fn generate(rng: &mut Rng) -> C10Sc {
    let secret = match rng.below(8) {
        0 => None,
        1 => Some(vec![]),
        2 => Some(rng.bytes(1)),
        3 => Some(rng.bytes(200)),
        // around one HMAC block
        4 => {
            let n = *rng.pick(&[63usize, 64, 65, 128]);
            Some(rng.bytes(n))
        }
        _ => Some(rng.bytes(32)),
    };
    let expiry = *rng.pick(&[0u64, 1, 60, 21_600, 21_600, u64::MAX]);
    let intent = if rng.chance(1, 2) { 2 } else { 3 };
    let mut client = ClientSpec::base(rng, intent);
    client.name = gen_name(rng);
    client.host = (*rng.pick(&["mc.example.org", "", "play.example.net", "xn--mnchen-3ya.example", "play.example.org\0FML3\0", "mc.example.org.", "mc.example.org\0203.0.113.77\0069a79f444e94726a5befca90e38aaf5", "lobby\02001:db8::77\0x"])).to_string();
    client.port = *rng.pick(&[25565u16, 0, 65535, 1]);
    // a prior session cookie may already exist
    if rng.chance(1, 3) {
        client.session_cookie = Some(
            serde_json::to_vec(&json!({"id": uuid_hyph(gen_uuid(rng)), "server_address": "earlier", "server_port": 7, "trace_id": null})).unwrap(),
        );
    }
    // the first connection may present a cookie that is not accepted (expired, another secret, another address,
    // garbage): the player is authenticated afresh and must be issued a new one all the same
    if intent == 3 && rng.chance(1, 4) {
        let id = Identity { name: "Stale".into(), uuid: gen_uuid(rng), props: if rng.chance(1, 2) { vec![PropSpec { name: "textures".into(), value: "somebody-elses-skin".into(), signature: Some("sig".into()) }] } else { vec![] } };
        let sec = secret.clone().unwrap_or_default();
        client.auth_cookie = Some(match rng.below(4) {
            0 => signed_cookie(&sec, &cookie_json(1_700_000_000, "203.0.113.250:4000", &id, None)), // long expired, other address
            1 => signed_cookie(b"some-other-secret", &cookie_json(1_800_000_000, "203.0.113.250:4000", &id, None)),
            2 => rng.bytes(40),
            _ => signed_cookie(&sec, b"{\"not\":\"a cookie\"}"),
        });
    }
    // a session cookie that cannot be read (an older format, somebody else's object, cut off): the client did present
    // one - whatever happens to the connection, it must not be handed a new one
    let mut unreadable_session = false;
    if rng.chance(1, 10) {
        unreadable_session = true;
        client.session_cookie = Some((*rng.pick(&[&b"{\"id\":\"62d78889-9263-b791-7f8f-2869d5a4a969\",\"server_address\":\"earlier\"}"[..], b"{\"session\":42}", b"{\"id\":\"62d78889-9263-b791-7f8f-2869d5a4a969\",\"server_addr", b"\x00\x01\x02garbage"])).to_vec());
    }
    let verdict = match rng.below(3) {
        0 => AuthRes::Claim,
        _ => AuthRes::Profile { name: if rng.chance(1, 6) { format!("Sanct{}", rng.below(1000)) } else { format!("Real{}", rng.below(1000)) }, uuid: format!("{:032x}", gen_uuid(rng)), props: gen_props(rng) },
    };
    let ntargets = rng.range(1, 3) as usize;
    let targets: Vec<_> = (0..ntargets).map(|i| gen_target(rng, i)).collect();
    let services = Services {
        auth: Script::always(Some(0), verdict),
        discovery: Script::always(Some(*rng.pick(&[0u64, 0, secs(5), secs(33)])), DiscRes::Targets(targets)),
        strategy: Script::always(Some(0), StratRes::Index(rng.below(ntargets as u64) as usize)),
        ..Default::default()
    };
    let mut first = ConnScenario {
        seed: rng.next_u64(),
        cfg: ConnCfg { secret, expiry: Some(expiry), max_frame: None, client_addr: gen_addr(rng) },
        wall: Wall {
            base_s: 1_800_000_000 + rng.below(1_000_000),
            // the wall clock may step (NTP) while the first connection is being routed
            jumps: if rng.chance(1, 4) { vec![(secs(rng.range(0, 30)), *rng.pick(&[-7200i64, -1, 1, 3600]))] } else { vec![] },
        },
        services,
        client,
        wplan: vec![],
        cap_ns: secs(600),
        prelude: vec![],
        growth: None,
    };
    let gap_s = match rng.below(8) {
        0 => 0,
        1 => expiry.min(1 << 40) as i64,
        2 => (expiry.min(1 << 40) as i64 - 1).max(0),
        3 => expiry.min(1 << 40) as i64 + 40,
        4 => -3600,
        _ => rng.below(expiry.clamp(1, 100_000)) as i64,
    };
    let mut sc = C10Sc {
        first: first.clone(),
        gap_s,
        second_port_xor: if rng.chance(1, 2) { 0 } else { 1 + rng.below(1000) as u16 },
        second_seed: rng.next_u64(),
        present_session: rng.chance(3, 4),
        second_expiry: if rng.chance(1, 5) { Some(*rng.pick(&[0u64, 1, 60, 3600, u64::MAX])) } else { None },
        second_think_ns: *rng.pick(&[0u64, 0, ms(1), ms(250), ms(999), ms(1500)]),
        unreadable_session,
    };
    // one in ten: the profile is padded so that the issued cookie is just below / at / just above 5000 and 5120 bytes
    // (what a vanilla client can store and present again)
    if first.cfg.secret.is_some() && rng.chance(1, 10) {
        let mut probe = first.clone();
        probe.services.auth = Script::always(Some(0), AuthRes::Profile { name: "Sized".into(), uuid: format!("{:032x}", gen_uuid(rng)), props: vec![PropSpec { name: "textures".into(), value: String::new(), signature: None }] });
        probe.services.discovery.default.lat_ns = Some(0);
        let o = run_conn(&probe);
        if let Some(ck) = auth_store_cookie(&o) {
            let want = *rng.pick(&[4990usize, 5000, 5001, 5060, 5119, 5120]);
            if want > ck.len() {
                let AuthRes::Profile { name, uuid, .. } = probe.services.auth.default.res.clone() else { unreachable!() };
                first.services.auth = Script::always(Some(0), AuthRes::Profile { name, uuid, props: vec![PropSpec { name: "textures".into(), value: "A".repeat(want - ck.len()), signature: None }] });
            }
        }
    }
    zero_time_noise(rng, &mut first);
    sc.first = first;
    sc
}

fn vouched(sc: &ConnScenario) -> Identity {
    match &sc.services.auth.default.res {
        AuthRes::Profile { name, uuid, props } => Identity { name: name.clone(), uuid: u128::from_str_radix(uuid, 16).unwrap_or(0), props: props.clone() },
        _ => Identity { name: sc.client.name.clone(), uuid: sc.client.uuid_u128(), props: vec![] },
    }
}

fn second_of(sc: &C10Sc, o1: &ConnOutcome) -> ConnScenario {
    let mut s = sc.first.clone();
    s.seed = sc.second_seed;
    s.wall.base_s = (sc.first.wall.base_s as i64 + sc.gap_s).max(0) as u64;
    let a: SocketAddr = s.cfg.client_addr.parse().unwrap();
    s.cfg.client_addr = SocketAddr::new(a.ip(), a.port() ^ sc.second_port_xor).to_string();
    s.client.intent = 3;
    s.client.rng ^= 0x1234;
    if sc.second_think_ns > 0 {
        s.client.login_think_ns = vec![0, sc.second_think_ns];
    }
    if let Some(e) = sc.second_expiry {
        s.cfg.expiry = Some(e);
    }
    s.client.auth_cookie = o1.view.stored_bytes(AUTH_KEY);
    s.client.session_cookie = if sc.present_session {
        o1.view.stored_bytes(SESSION_KEY).or(sc.first.client.session_cookie.clone())
    } else {
        None
    };
    s
}

fn check_session(sc: &ConnScenario, out: &ConnOutcome, rep: &mut RunReport, which: &str) -> Option<String> {
    let presented = sc.client.session_cookie.is_some();
    let stored = session_store_cookie(out);
    let routed = out.view.first("Transfer").is_some();
    if !routed {
        return None;
    }
    match (&stored, presented) {
        (Some(_), true) => rep.violate("session_cookie_only_when_absent", format!("{which}: a session cookie was presented but a new one was stored")),
        (None, false) => rep.violate("session_cookie_when_absent", format!("{which}: no session cookie presented and none was issued")),
        _ => {}
    }
    let s = stored?;
    let v: Value = match serde_json::from_slice(&s) {
        Ok(v) => v,
        Err(_) => {
            rep.violate("session_cookie_shape", format!("{which}: session cookie is not JSON"));
            return None;
        }
    };
    if v["server_address"].as_str() != Some(&sc.client.host) || v["server_port"] != json!(sc.client.port) {
        rep.violate("session_cookie_handshake", format!("{which}: session cookie records {} : {}, handshake said {:?} : {}", v["server_address"], v["server_port"], sc.client.host, sc.client.port));
    }
    let id = v["id"].as_str().and_then(uuid_from_any);
    if id.is_none() {
        rep.violate("session_cookie_shape", format!("{which}: session id {} is not a UUID", v["id"]));
    }
    v["id"].as_str().map(|s| s.to_string())
}

pub fn check(sc: &C10Sc, o1: &ConnOutcome, s2: &ConnScenario, o2: &ConnOutcome, rep: &mut RunReport) {
    let f = &sc.first;
    for (o, w) in [(o1, "first"), (o2, "second")] {
        if !o.panics.is_empty() {
            rep.violate("no_panic", format!("{w} connection panicked: {}", o.panics[0]));
            return;
        }
        if let Some(u) = &o.view.undecodable {
            rep.violate("stream_decodes", format!("{w}: {u}"));
            return;
        }
    }
    if sc.unreadable_session {
        // presented one (however unreadable): no new session cookie, routed or not; nothing else is judged
        if session_store_cookie(o1).is_some() {
            rep.violate("session_cookie_only_when_absent", format!("the client presented a session cookie the server could not read and was handed a new one (result {} {})", o1.result, o1.result_text));
        }
        return;
    }
    let transfer1 = o1.view.first("Transfer");
    if transfer1.is_none() || o1.result != "Ok" {
        rep.violate("first_connection_routed", format!("first connection: result {} {} packets {:?}", o1.result, o1.result_text, o1.view.kinds()));
        return;
    }
    let id = vouched(f);
    let issued = auth_store_cookie(o1);
    match (&f.cfg.secret, &issued) {
        (None, Some(_)) => rep.violate("no_cookie_without_secret", "an authentication cookie was issued although no secret is configured".into()),
        (Some(_), None) => rep.violate("cookie_issued_with_secret", format!("secret configured and player freshly authenticated, but no authentication cookie before the Transfer: {:?}", o1.view.kinds())),
        (Some(secret), Some(ck)) => {
            // order: before the Transfer
            let pos_ck = o1.view.packets.iter().position(|p| p.kind == "StoreCookie" && p.fields["key"] == json!(AUTH_KEY));
            let pos_tr = o1.view.packets.iter().position(|p| p.kind == "Transfer");
            if pos_ck > pos_tr {
                rep.violate("cookie_before_transfer", "authentication cookie stored after the Transfer".into());
            }
            if ck.len() < 32 || hmac_sha256(secret, &ck[32..])[..] != ck[..32] {
                rep.violate("cookie_tag_verifies", "first 32 bytes are not HMAC-SHA256(secret, rest)".into());
            } else {
                match parse_cookie_body(&ck[32..]) {
                    None => rep.violate("cookie_body_complete", format!("cookie body does not carry the required fields: {}", String::from_utf8_lossy(&ck[32..]))),
                    Some(p) => {
                        let me: SocketAddr = f.cfg.client_addr.parse().unwrap();
                        if p.addr != me {
                            rep.violate("cookie_records_address", format!("cookie records {} for client {}", p.addr, me));
                        }
                        if p.id != id {
                            rep.violate("cookie_records_identity", format!("cookie records {:?}, authenticated identity {:?}", p.id, id));
                        }
                        let chosen = o1.events("svc:strategy", "done").next().and_then(|e| e.detail["result"]["id"].as_str().map(|s| s.to_string()));
                        if p.target != chosen {
                            rep.violate("cookie_records_target", format!("cookie records target {:?}, chosen {:?}", p.target, chosen));
                        }
                        let t_issue = o1.view.packets[pos_ck.unwrap()].t_ns;
                        let want = f.wall.at(t_issue);
                        if p.timestamp != want {
                            rep.violate("cookie_records_time", format!("cookie timestamp {} but the wall clock said {} at issue", p.timestamp, want));
                        }
                    }
                }
            }
        }
        (None, None) => {}
    }
    check_service_addresses(f, o1, rep);
    check_service_addresses(s2, o2, rep);
    let sid1 = check_session(f, o1, rep, "first");
    let sid2 = check_session(s2, o2, rep, "second");
    if let (Some(a), Some(b)) = (&sid1, &sid2)
        && a == b
    {
        rep.violate("session_id_fresh", format!("both connections were given session id {a}"));
    }
    // second connection: same IP, Transfer intent; within expiry => accepted without re-authentication
    if f.cfg.secret.is_some() && issued.is_some() {
        let expiry = s2.cfg.expiry.unwrap_or(21_600);
        let issued_ts = issued.as_ref().and_then(|c| parse_cookie_body(&c[32.min(c.len())..])).map(|p| p.timestamp);
        let t2 = o2.view.sent.iter().filter(|s| s.kind == "CookieResponse").nth(1).map(|s| s.t_ns).unwrap_or(0);
        let now2 = s2.wall.at(t2);
        if let Some(ts) = issued_ts
            && u128::from(ts) + u128::from(expiry) >= u128::from(now2)
        {
            let flag = o2.view.first("EncryptionRequest").map(|p| p.fields["should_authenticate"].clone());
            let called = o2.events("svc:auth", "call").count() > 0;
            if flag != Some(json!(0)) || called {
                rep.violate(
                    "accepted_next_time",
                    format!("cookie issued at {ts}, presented from the same IP at {now2} (expiry {expiry}) but should_authenticate={:?}, service called={called}, result {} {}", flag, o2.result, o2.result_text),
                );
            } else if let Some((n, u)) = login_success_identity(o2)
                && (n != id.name || u != id.uuid)
            {
                rep.violate("same_identity_next_time", format!("second connection logged in as {n} / {u:032x}, first as {} / {:032x}", id.name, id.uuid));
            }
            *rep.probes.entry("second_connection_within_expiry".into()).or_insert(0) += 1;
        } else if issued_ts.is_some() {
            // older than the expiry the second connection is handled under: the player authenticates again
            let flag = o2.view.first("EncryptionRequest").map(|p| p.fields["should_authenticate"].clone());
            if flag == Some(json!(0)) {
                rep.violate("expired_cookie_refused_next_time", format!("cookie issued at {:?}, presented at {now2} under expiry {expiry}, but authentication was skipped", issued_ts));
            }
        }
    }
}

impl Check for C10 {
    type Sc = C10Sc;
    fn id(&self) -> &'static str {
        "C10"
    }
    fn level(&self) -> &'static str {
        "exploration"
    }
    fn rule_text(&self) -> String {
        "two-connection histories: the first (login or transfer intent, fresh authentication, 1-3 targets, routing latency up to 33 s) stores what it is given; the second presents it from the same IP (port changed or not) after a wall-clock gap of 0 / expiry-1 / expiry / expiry+40 / -1 h / random, with or without the stored session cookie; secrets none / empty / 1 / 32 / 200 bytes, expiry from {0,1,60,21600,2^64-1}, IPv4/IPv6 clients, identities with 0-5 properties, odd handshake hosts and ports. Non-trivial = a cookie was issued and presented again; distinct = distinct pair of event-order trace hashes.".into()
    }
    fn assumptions(&self) -> Vec<String> {
        vec!["the oracle's HMAC and JSON shape check are correct; the simulated wall clock is the only clock the cookie code reads (hook H2)".into()]
    }
    fn components(&self) -> Value {
        json!({"real": ["Connection::listen (twice)", "cookie::sign / verify", "AuthCookie / SessionCookie serde", "Store Cookie codec"], "stub": ["transport", "client with cookie store", "services", "wall clock"]})
    }
    fn count(&self, tier: Tier) -> u64 {
        match tier {
            Tier::Quick => 80_000,
            Tier::Thorough => 2_500_000,
        }
    }
    fn generate(&self, rng: &mut Rng, _index: u64, _tier: Tier) -> C10Sc {
        generate(rng)
    }
    fn execute(&self, sc: &C10Sc) -> RunReport {
        let c = &sc.first.client;
        if !conn_domain_ok(&sc.first) || !matches!(c.intent, 2 | 3) || c.script.is_some() || !c.mutations.is_empty() || !matches!(c.enc, crate::client::EncVariant::Honest) || !c.send_info || !transport_is_zero_time(&sc.first) {
            return RunReport::default();
        }
        // a cookie on the first connection only if it is one that must be refused (fresh authentication is this check's subject)
        if cookie_accepted(c.intent, sc.first.cfg.secret.as_deref(), c.auth_cookie.as_deref(), &sc.first.cfg.client_addr, sc.first.wall.base_s, expiry_of(&sc.first)).is_some()
            || cookie_accepted(c.intent, sc.first.cfg.secret.as_deref(), c.auth_cookie.as_deref(), &sc.first.cfg.client_addr, sc.first.wall.base_s + 100_000, expiry_of(&sc.first)).is_some()
        {
            return RunReport::default();
        }
        // as generated, a session cookie on the first connection is a well-formed one unless the scenario says otherwise
        let readable = |b: &Vec<u8>| serde_json::from_slice::<Value>(b).is_ok_and(|v| v["id"].as_str().and_then(uuid_from_any).is_some() && v["server_address"].is_string() && v["server_port"].is_u64());
        if sc.unreadable_session != c.session_cookie.as_ref().is_some_and(|b| !readable(b)) {
            return RunReport::default();
        }
        // the first connection must be one that gets routed (the shrinker may take its targets away)
        let ntargets = match &sc.first.services.discovery.default.res {
            DiscRes::Targets(t) => t.len(),
            _ => 0,
        };
        let pick_ok = match &sc.first.services.strategy.default.res {
            StratRes::Index(i) => *i < ntargets,
            StratRes::First => ntargets > 0,
            _ => false,
        };
        if !pick_ok || !sc.first.services.discovery.calls.is_empty() || !sc.first.services.strategy.calls.is_empty() || !matches!(sc.first.services.filter.default.res, crate::services::FiltRes::Identity) || !matches!(sc.first.services.auth.default.res, AuthRes::Claim | AuthRes::Profile { .. }) {
            return RunReport::default();
        }
        let o1 = run_conn(&sc.first);
        let s2 = second_of(sc, &o1);
        let o2 = run_conn(&s2);
        let mut rep = base_report(&o1);
        rep.runs = 2;
        rep.merge_counts(&o2.faults, &o2.probes);
        rep.sim_ns += o2.end_ns;
        rep.trace_hash = rep.trace_hash.rotate_left(17) ^ o2.trace_hash();
        rep.full_hash = rep.full_hash.rotate_left(17) ^ o2.full_hash();
        rep.nontrivial = s2.client.auth_cookie.is_some();
        let mut h = crate::rng::Fnv(rep.trace_hash);
        h.write_str(&format!("{:?}|{:?}|{}|{}|{}|{}", sc.first.cfg.secret.as_ref().map(|s| s.len()), sc.first.cfg.expiry, sc.gap_s.signum(), sc.gap_s.unsigned_abs().min(100_000) / 1000, sc.present_session, sc.second_port_xor == 0));
        rep.trace_hash = h.0;
        if !sc.first.wall.jumps.is_empty() {
            *rep.faults.entry("wall_clock_jump_during_connection".into()).or_insert(0) += 1;
        }
        if sc.gap_s < 0 {
            *rep.faults.entry("wall_clock_stepped_back".into()).or_insert(0) += 1;
        }
        check(sc, &o1, &s2, &o2, &mut rep);
        rep
    }
}
