//! C07 - waiting players are kept alive; silent ones are timed out.
//! The real Connection under virtual time with slow services, late Client Information and a
//! per-keep-alive echo policy; the oracle is stated ex post on the virtual timestamps of the
//! server's writes, so it does not hard-code the tick phase.

use super::common::*;
use crate::client::{Body, ClientSpec, Extra, KaId, KaPolicy};
use crate::conn::{ConnCfg, ConnOutcome, ConnScenario, Wall, run_conn};
use crate::rng::Rng;
use crate::runner::{Check, RunReport, Tier};
use crate::services::{DiscRes, Script, Services, StratRes};
use serde_json::{Value, json};
use std::net::{IpAddr, SocketAddr};

pub struct C07;

const PERIOD: u64 = 16_000_000_000;
// tokio timers have millisecond resolution. Every delay is a whole number of seconds plus a distinct
// power-of-two millisecond offset per event source, so no two event sources ever tie with each other
// or with a keep-alive tick (ties are not decided by the property).
const OFF_AUTH: u64 = 1_000_000;
const OFF_ACK: u64 = 2_000_000;
const OFF_INFO: u64 = 4_000_000;
const OFF_ECHO: u64 = 8_000_000;
const OFF_DISC: u64 = 16_000_000;
const OFF_FILT: u64 = 32_000_000;
const OFF_STRAT: u64 = 64_000_000;
const OFF_EXTRA: u64 = 128_000_000;
/// login-phase think time (used for at most three answers: 256 + 256 + 256 < 1024 and the 512 bit is otherwise free)
const OFF_THINK: u64 = 256_000_000;
/// half a millisecond: no sum of the millisecond offsets above ends on it
const OFF_LOC: u64 = 500_000;

fn lat(rng: &mut Rng, off: u64) -> u64 {
    let base = match rng.below(8) {
        0 | 1 => return 0,
        2 => 0,
        3 => secs(rng.range(1, 15)),
        4 => secs(16),
        5 => secs(rng.range(17, 100)),
        6 => secs(32),
        _ => secs(rng.range(0, 60)),
    };
    base + off
}

fn generate(rng: &mut Rng) -> ConnScenario {
    let has_target = rng.chance(3, 4);
    let services = Services {
        auth: Script::always(Some(if rng.chance(1, 4) { lat(rng, OFF_AUTH) } else { 0 }), crate::services::AuthRes::Claim),
        discovery: Script::always(Some(lat(rng, OFF_DISC)), DiscRes::Targets(if has_target { vec![gen_target(rng, 0), gen_target(rng, 1)] } else { vec![] })),
        filter: Script::always(Some(lat(rng, OFF_FILT)), crate::services::FiltRes::Identity),
        strategy: Script::always(Some(lat(rng, OFF_STRAT)), StratRes::First),
        ..Default::default()
    };
    let intent = if rng.chance(1, 2) { 2 } else { 3 };
    let mut client = ClientSpec::base(rng, intent);
    client.ack_delay_ns = if rng.chance(1, 3) { secs(rng.range(0, 40)) + OFF_ACK } else { 0 };
    client.info_delay_ns = match rng.below(5) {
        0 | 1 => 0,
        2 => secs(rng.range(0, 15)) + OFF_INFO,
        3 => secs(rng.range(16, 60)) + OFF_INFO,
        _ => secs(16) + OFF_INFO,
    };
    // a slow client in the login phase (cookie responses, Encryption Response): nothing but the
    // login packets may be sent meanwhile, and the keep-alive clock only matters from Login Acknowledged on
    if rng.chance(1, 4) {
        for _ in 0..3 {
            client.login_think_ns.push(if rng.chance(1, 2) { secs(rng.range(0, 40)) + OFF_THINK } else { 0 });
        }
    }
    // a client that pipelines Login Acknowledged behind its Encryption Response (same read) while the
    // authentication takes several periods: the keep-alive clock must not have run up a debt meanwhile
    if rng.chance(1, 8) {
        client.early_ack = true;
        client.coalesce = true;
        client.ack_delay_ns = 0;
    }
    // most clients hang up as soon as they have been told where to go; some take a while
    client.close_on_end_ns = *rng.pick(&[Some(0u64), Some(0), Some(0), Some(secs(1) + OFF_EXTRA / 2), Some(secs(20) + OFF_EXTRA / 2)]);
    // whatever locale the client reports, the (single, default) table applies; the message may be plain text
    if rng.chance(1, 3) {
        client.locale = super::c03::gen_locale(rng);
    }
    let style = rng.below(5);
    let pol = |rng: &mut Rng| -> KaPolicy {
        match rng.below(12) {
            0 => KaPolicy::Never,
            1 => KaPolicy::WrongId,
            2 => KaPolicy::Duplicate,
            3 => KaPolicy::Delay { ns: secs(rng.range(0, 14)) + OFF_ECHO },
            4 => KaPolicy::Delay { ns: secs(rng.range(16, 40)) + OFF_ECHO },
            5 => KaPolicy::Delay { ns: secs(15) + OFF_ECHO },
            _ => KaPolicy::Prompt,
        }
    };
    client.ka_default = if style == 0 { pol(rng) } else { KaPolicy::Prompt };
    if style >= 3 {
        for _ in 0..rng.range(1, 6) {
            let p = if rng.chance(1, 3) { pol(rng) } else { KaPolicy::Prompt };
            client.ka.push(p);
        }
    }
    let after = (services.auth.default.lat_ns.unwrap_or(0) + client.ack_delay_ns + client.login_think_ns.iter().sum::<u64>()) / 1_000_000_000 + 2;
    for _ in 0..rng.below(3) {
        client.extras.push(Extra {
            after_ack: false,
            at_ns: secs(rng.range(after, after + 90)) + OFF_EXTRA,
            id: 0x04,
            body: Body::KeepAlive { id: KaId::Fixed(rng.next_u64()) },
        });
    }
    let mut services = services;
    if rng.chance(1, 4) {
        let t = services.localization.messages.get_mut("en").expect("default table");
        t.insert("disconnect_timeout".into(), (*rng.pick(&["Zeit\u{fc}berschreitung \u{2013} keine Antwort", "timeout \u{2764}", "plain ascii timeout", "[Passage] Timed out", "\"slow\" client", "408", "[]"])).to_string());
    }
    // an operator who overrode only the other message: the table that is selected has no text for the timeout
    if rng.chance(1, 8) {
        services.localization.messages.get_mut("en").expect("default table").remove("disconnect_timeout");
    }
    // a localization back-end that needs a moment to look the timeout message up (a remote table): the decision
    // to drop the client is taken at the tick, the Disconnect is written when the text is there; back-end calls
    // that complete in between, and echoes that arrive in between, change nothing about it
    if rng.chance(1, 6) {
        services.localization.timeout_lat_ns = secs(rng.range(1, 5)) + OFF_LOC;
    }
    ConnScenario {
        seed: rng.next_u64(),
        cfg: ConnCfg { secret: if rng.chance(1, 2) { Some(rng.bytes(16)) } else { None }, expiry: None, max_frame: None, client_addr: gen_addr(rng) },
        wall: Wall::default(),
        services,
        client,
        wplan: vec![],
        cap_ns: secs(1200),
        prelude: vec![],
        growth: None,
    }
}

/// Back-pressure mode: a client that never echoes, routing that takes at least three periods, and a
/// transport that holds the first Keep Alive back (entirely, or after a few bytes) for a while or until
/// the back-end call that is running at that moment completes - so the future that sends the Keep
/// Alive is dropped in the middle of its write.
fn generate_backpressure(rng: &mut Rng) -> ConnScenario {
    use crate::pipe::WRule;
    let mut sc = generate(rng);
    sc.services.localization.timeout_lat_ns = 0; // this mode times the Disconnect itself
    let c = &mut sc.client;
    c.ka_default = KaPolicy::Never;
    c.ka.clear();
    c.extras.clear();
    c.early_ack = false;
    c.coalesce = false;
    c.login_think_ns.clear();
    c.ack_delay_ns = 0;
    c.info_delay_ns = *rng.pick(&[0u64, secs(3) + OFF_INFO, secs(20) + OFF_INFO]);
    sc.services.auth.default.lat_ns = Some(0);
    // three services, one of them long; the others end somewhere inside the first periods
    let mut lats = [secs(rng.range(0, 30)) + OFF_DISC, secs(rng.range(0, 30)) + OFF_FILT, secs(rng.range(0, 30)) + OFF_STRAT];
    let long = rng.usize_below(3);
    lats[long] += secs(70);
    sc.services.discovery.default.lat_ns = Some(lats[0]);
    sc.services.filter.default.lat_ns = Some(lats[1]);
    sc.services.strategy.default.lat_ns = Some(lats[2]);
    // learn from the undisturbed execution which write call carries the first Keep Alive and what completes next
    let refo = run_conn(&sc);
    let Some(ki) = refo.view.packets.iter().position(|p| p.kind == "KeepAlive") else { return sc };
    let off: usize = refo.view.packets[..ki].iter().map(|p| p.len + crate::codec::varint(p.len as i32).len()).sum();
    let (mut acc, mut call) = (0usize, 0usize);
    for (_, chunk) in &refo.pipe.out {
        if acc + chunk.len() > off {
            break;
        }
        acc += chunk.len();
        call += 1;
    }
    // a third of the time the hold is aimed at the frame after the Keep Alive instead: the timeout Disconnect
    let at_disconnect = rng.chance(1, 3) && refo.result == "MissedKeepAlive";
    for _ in 0..call + usize::from(at_disconnect) {
        sc.wplan.push(WRule::Accept { max: 1_000_000 });
    }
    if rng.chance(1, 2) {
        sc.wplan.push(WRule::Accept { max: rng.range(1, 9) as usize });
    }
    let t_ka = if at_disconnect { refo.view.packets.iter().find(|p| p.kind == "Disconnect").map(|p| p.t_ns).unwrap_or(refo.view.packets[ki].t_ns) } else { refo.view.packets[ki].t_ns };
    let next_done = ["discovery", "filter", "strategy"].iter().filter_map(|n| refo.log.iter().find(|e| e.actor == format!("svc:{n}") && e.kind == "done").map(|e| (format!("{n}_done"), e.t_ns))).filter(|(_, t)| *t > t_ka && *t - t_ka < secs(10)).min_by_key(|(_, t)| *t);
    match next_done {
        Some((name, _)) if rng.chance(3, 4) => sc.wplan.push(WRule::PendEvent { name, ns: *rng.pick(&[0u64, 1_000_000, 700_000_000]) }),
        _ => sc.wplan.push(WRule::Pend { ns: ms(rng.range(1, 4000)) }),
    }
    sc
}

/// Oracle of the back-pressure mode: counts and order only (the client's receive times are not the
/// server's write times here).
fn check_backpressure(sc: &ConnScenario, out: &ConnOutcome, rep: &mut RunReport) {
    if !out.panics.is_empty() {
        rep.violate("no_panic", format!("handler panicked: {}", out.panics[0]));
        return;
    }
    if let Some(u) = &out.view.undecodable {
        rep.violate("stream_decodes", u.clone());
        return;
    }
    let kas = out.view.all("KeepAlive");
    if kas.len() > 1 {
        rep.violate("second_keep_alive_while_outstanding", format!("the client never echoed, yet it was sent {} Keep Alives (at {:?} ns)", kas.len(), kas.iter().map(|p| p.t_ns).collect::<Vec<_>>()));
    }
    let Some(first) = kas.first() else { return };
    let held = out.pipe.write_blocked_total_ns;
    // routing takes at least 70 s from Client Information on, the unanswered Keep Alive is due 16 s after it was written
    let timeout = out.view.packets.iter().find(|p| p.kind == "Disconnect" && is_timeout_disconnect(sc, &p.fields["reason"]));
    match timeout {
        None => rep.violate("silent_client_is_timed_out", format!("Keep Alive received at {} ns was never echoed and routing takes more than 70 s, but no timeout Disconnect arrived: result {} {} packets {:?}", first.t_ns, out.result, out.result_text, out.view.kinds())),
        Some(d) => {
            if d.t_ns > first.t_ns + PERIOD + held + secs(1) {
                rep.violate("silent_client_is_timed_out", format!("Keep Alive received at {} ns, timeout Disconnect only at {} ns (writes were held back {} ns in total)", first.t_ns, d.t_ns, held));
            }
            if out.view.packets.last().map(|p| p.kind.as_str()) != Some("Disconnect") || out.view.first("Transfer").is_some() {
                rep.violate("nothing_after_timeout", format!("packets {:?}", out.view.kinds()));
            }
            if out.result != "MissedKeepAlive" {
                rep.violate("timeout_result", format!("timeout Disconnect sent but listen() returned {} {}", out.result, out.result_text));
            }
        }
    }
    let _ = sc;
}

/// The timeout message as configured (one table, "en", reached from any client locale through the default locale).
fn is_timeout_disconnect(sc: &ConnScenario, reason: &Value) -> bool {
    match sc.services.localization.messages.get("en").and_then(|t| t.get("disconnect_timeout")) {
        Some(m) => super::c03::text_matches(reason, m),
        // (a table without this key: whatever text the adapter falls back to - the key itself on the unchanged tree -
        // the timeout Disconnect is the one that does not carry the configured no-target message)
        None => match sc.services.localization.messages.get("en").and_then(|t| t.get("disconnect_no_target")) {
            Some(nt) => !super::c03::text_matches(reason, nt),
            None => super::c03::text_matches(reason, "disconnect_timeout"),
        },
    }
}

pub fn check(sc: &ConnScenario, out: &ConnOutcome, rep: &mut RunReport) {
    if !out.panics.is_empty() {
        rep.violate("no_panic", format!("handler panicked: {}", out.panics[0]));
        return;
    }
    if let Some(u) = &out.view.undecodable {
        rep.violate("stream_decodes", u.clone());
        return;
    }
    // the login phase knows no Keep Alive and no timeout Disconnect, however slow the client is
    let t_ls = out.view.first("LoginSuccess").map(|p| p.t_ns);
    for p in &out.view.packets {
        if matches!(p.kind.as_str(), "KeepAlive" | "Disconnect") && t_ls.is_none_or(|t| p.t_ns < t) {
            rep.violate("no_keep_alive_before_configuration", format!("{} at {} ns, before Login Success", p.kind, p.t_ns));
        }
    }
    for p in &out.view.packets {
        if p.phase == "login" && !matches!(p.kind.as_str(), "CookieRequest" | "EncryptionRequest" | "LoginSuccess") {
            rep.violate("no_keep_alive_before_configuration", format!("{} (id {:#x}) at {} ns in the login phase", p.kind, p.id, p.t_ns));
        }
    }
    let Some(t_ack) = out.view.sent.iter().find(|s| s.kind == "LoginAck").map(|s| s.t_ns) else {
        return; // never reached the configuration phase
    };
    if out.view.sent.iter().any(|s| s.kind == "Extra" && s.t_ns <= t_ack) {
        return; // an unsolicited keep-alive before the configuration phase ends the connection (C06); not this check's domain
    }
    let t_info = out.view.sent.iter().find(|s| s.kind == "ClientInfo").map(|s| s.t_ns);
    // echoes as the client sent them: (arrival time == send time, id)
    let mut echoes: Vec<(u64, u64)> = vec![];
    {
        // reconstruct echo ids from the client's policy: every "KeepAliveEcho" frame echoes the id of the
        // most recent Keep Alive received before the echo was scheduled; the client logs kinds only, so
        // recompute from receive times and the policy
        let kas: Vec<(u64, u64)> = out.view.all("KeepAlive").iter().map(|p| (p.t_ns, p.fields["id"].as_u64().unwrap_or(0))).collect();
        for (i, (t, id)) in kas.iter().enumerate() {
            let pol = sc.client.ka.get(i).cloned().unwrap_or_else(|| sc.client.ka_default.clone());
            match pol {
                KaPolicy::Prompt | KaPolicy::Duplicate => echoes.push((*t, *id)),
                KaPolicy::Delay { ns } => echoes.push((t + ns, *id)),
                KaPolicy::Never | KaPolicy::WrongId => {}
            }
        }
    }
    let end = out.view.packets.iter().find(|p| p.kind == "Transfer" || p.kind == "Disconnect");
    // tick events after the configuration phase started
    let mut ticks: Vec<(u64, bool, u64)> = vec![]; // (time, is_timeout, id)
    // with a localization back-end that takes a while, the instant that counts for the timeout is the one at which
    // the handler decided to drop the client (it asks for the text then), not the one at which the text was written
    let decided = out.events("svc:localization", "start").next().map(|e| e.t_ns);
    for p in &out.view.packets {
        if p.kind == "KeepAlive" {
            if p.t_ns < t_ack.max(t_ls.unwrap_or(0)) {
                rep.violate("no_keep_alive_before_configuration", format!("Keep Alive at {} ns, Login Acknowledged at {} ns", p.t_ns, t_ack));
            }
            ticks.push((p.t_ns, false, p.fields["id"].as_u64().unwrap_or(0)));
        } else if p.kind == "Disconnect" && is_timeout_disconnect(sc, &p.fields["reason"]) {
            ticks.push((decided.unwrap_or(p.t_ns).min(p.t_ns), true, 0));
        }
    }
    let end_t = end.map(|p| p.t_ns).or(out.done_ns).unwrap_or(out.end_ns);
    // (a) at least every 16 s from Login Acknowledged (or Login Success, if the client acknowledged it
    // ahead of time) to the end
    let t_ack = t_ack.max(t_ls.unwrap_or(0));
    let mut prev = t_ack;
    for (t, _, _) in &ticks {
        if *t > prev && t - prev > PERIOD {
            rep.violate("keep_alive_at_least_every_16s", format!("{} ns without a Keep Alive (from {} to {}), configuration phase started at {}", t - prev, prev, t, t_ack));
        }
        prev = (*t).max(prev);
    }
    if end_t > prev && end_t - prev > PERIOD {
        rep.violate("keep_alive_at_least_every_16s", format!("no Keep Alive between {} and the end of the connection at {}", prev, end_t));
    }
    // (b) a tick event is the timeout Disconnect iff the previous Keep Alive was not echoed strictly before it
    let mut expected_timeout_at: Option<u64> = None;
    for w in 0..ticks.len() {
        let (t, is_timeout, _) = ticks[w];
        if w == 0 {
            if is_timeout {
                rep.violate("timeout_only_after_unechoed_keep_alive", format!("timeout Disconnect at {t} without a preceding Keep Alive"));
            }
            continue;
        }
        let (pt, p_timeout, pid) = ticks[w - 1];
        if p_timeout {
            rep.violate("nothing_after_timeout", format!("tick event at {t} after the timeout Disconnect at {pt}"));
            break;
        }
        let echoed = echoes.iter().any(|(et, eid)| *eid == pid && *et >= pt && *et < t);
        if is_timeout && t == pt {
            rep.violate("prompt_client_never_dropped", format!("the timeout Disconnect was written at {t} ns, the very instant Keep Alive {pid:#x} was sent: no client can echo in no time"));
        }
        // "before the next is due": the protocol gives a client 15 s to answer a Keep Alive (the period has to lie
        // between 15 and 20 s for that reason), so a timeout that comes sooner after the Keep Alive it refers to
        // drops clients that did nothing wrong - e.g. when the first Keep Alive of the phase is sent off the grid
        if is_timeout && t > pt && t - pt < secs(15) {
            rep.violate("echo_window_shorter_than_the_protocol_allows", format!("Keep Alive {pid:#x} was sent at {pt} ns and the client was timed out at {t} ns, {} ms later: a client has 15 s to echo", (t - pt) / 1_000_000));
        }
        if echoed && is_timeout {
            rep.violate("prompt_client_never_dropped", format!("Keep Alive {pid:#x} sent at {pt} was echoed before {t}, yet the client was timed out at {t}"));
        }
        if !echoed && !is_timeout {
            rep.violate("second_keep_alive_while_outstanding", format!("Keep Alive sent at {pt} was not echoed before {t}, yet another Keep Alive was sent at {t} instead of the timeout Disconnect"));
        }
        if is_timeout {
            expected_timeout_at = Some(t);
        }
    }
    let timed_out = ticks.iter().any(|t| t.1);
    // once the handler has found a Keep Alive unechoed at the next tick, the client is dropped with the timeout
    // message - whatever completes while the message is being looked up
    if let Some(d) = decided {
        if !timed_out {
            rep.violate("timeout_decision_is_final", format!("the handler found a Keep Alive unechoed at {d} ns and asked for the timeout message, but the client was never sent it: result {} {}, packets {:?}", out.result, out.result_text, out.view.kinds()));
            return;
        }
    }
    // a connection that ends for a missed keep-alive tells the client so, in the configured words (whatever locale
    // the client reported, or none at all, if it had not sent Client Information yet)
    if out.result == "MissedKeepAlive" && !timed_out {
        rep.violate("timeout_disconnect_is_the_configured_message", format!("listen() returned MissedKeepAlive but the client was not sent the configured timeout message: packets {:?}, last Disconnect {:?}", out.view.kinds(), out.view.all("Disconnect").last().map(|p| p.fields["reason"].clone())));
    }
    if timed_out {
        if out.result != "MissedKeepAlive" {
            rep.violate("timeout_result", format!("timeout Disconnect sent but listen() returned {} {}", out.result, out.result_text));
        }
        let last = out.view.packets.last().map(|p| p.kind.clone());
        if last.as_deref() != Some("Disconnect") || out.view.first("Transfer").is_some() {
            rep.violate("nothing_after_timeout", format!("packets {:?}", out.view.kinds()));
        }
        let _ = expected_timeout_at;
        return;
    }
    // (c) no timeout: routing completes at the instant the last service completes, with the right outcome
    let Some(t_info) = t_info else {
        return;
    };
    // (a client that pipelines sends Client Information before the configuration phase exists)
    let t_info = t_info.max(t_ls.unwrap_or(0));
    let l = |s: &Option<u64>| s.unwrap_or(0);
    let want_end = t_info + l(&sc.services.discovery.default.lat_ns) + l(&sc.services.filter.default.lat_ns) + l(&sc.services.strategy.default.lat_ns);
    // an unechoed keep-alive that has not reached its next tick yet is fine; but the connection must end at want_end
    let Some(endp) = end else {
        rep.violate("routing_completes_despite_waiting", format!("no Transfer/Disconnect although no timeout occurred: result {} {} packets {:?}", out.result, out.result_text, out.view.kinds()));
        return;
    };
    if endp.t_ns != want_end {
        rep.violate("transfer_as_soon_as_routing_completes", format!("routing completed at {want_end} ns but the final packet was written at {} ns", endp.t_ns));
    }
    let chosen = out.events("svc:strategy", "done").next().map(|e| e.detail["result"].clone());
    match chosen {
        Some(c) if !c.is_null() => {
            let addr: SocketAddr = c["addr"].as_str().unwrap_or("").parse().expect("addr");
            let host: Option<IpAddr> = endp.fields["host"].as_str().and_then(|h| h.parse().ok());
            if endp.kind != "Transfer" || host != Some(addr.ip()) || endp.fields["port"] != json!(addr.port()) {
                rep.violate("correct_transfer_after_waiting", format!("chosen {addr}, final packet {} {}", endp.kind, endp.fields));
            }
        }
        Some(_) => {
            if endp.kind != "Disconnect" || is_timeout_disconnect(sc, &endp.fields["reason"]) {
                rep.violate("correct_transfer_after_waiting", format!("no target chosen, final packet {} {}", endp.kind, endp.fields));
            }
        }
        None => rep.violate("routing_completes_despite_waiting", "strategy never completed".into()),
    }
}

impl Check for C07 {
    type Sc = ConnScenario;
    fn id(&self) -> &'static str {
        "C07"
    }
    fn level(&self) -> &'static str {
        "exploration"
    }
    fn rule_text(&self) -> String {
        "random schedules under virtual time: authentication / discovery / filter / strategy latency each from {0, ms, 1-15 s, exactly 16 s, 17-100 s, 32 s, random up to 60 s}, Login Acknowledged and Client Information delayed up to 60 s, echo policy per keep-alive (prompt, delayed below / just below / above the period, never, wrong id, duplicate) and unsolicited keep-alives; frames atomic, writes accepted at once, all delays are whole seconds plus a distinct power-of-two millisecond offset per event source so nothing ties with a tick or with each other. Non-trivial = at least one Keep Alive was sent; distinct = distinct event-order trace hash.".into()
    }
    fn assumptions(&self) -> Vec<String> {
        vec![
            "exact ties between a tick and an echo / service completion are excluded by construction (the property does not decide them)".into(),
            "'before the next is due' is read with the protocol's response time: a timeout less than 15 s after the Keep Alive it refers to is a violation (the tick phase itself is not hard-coded)".into(),
            "transport is instantaneous in this check, so client receive time = server write time".into(),
        ]
    }
    fn components(&self) -> Value {
        json!({"real": ["Connection::listen / receive_packet / keep_alive", "tokio interval + select! under the paused clock", "crypto::generate_keep_alive"], "stub": ["transport", "client echo policies", "services with latency"]})
    }
    fn count(&self, tier: Tier) -> u64 {
        match tier {
            Tier::Quick => 200_000,
            Tier::Thorough => 6_000_000,
        }
    }
    fn generate(&self, rng: &mut Rng, index: u64, _tier: Tier) -> ConnScenario {
        if index % 6 == 5 { generate_backpressure(rng) } else { generate(rng) }
    }
    fn execute(&self, sc: &ConnScenario) -> RunReport {
        let backpressure = !sc.wplan.is_empty();
        if backpressure {
            // the back-pressure mode's own domain: a silent client, long routing, holds of a few seconds at most
            use crate::pipe::WRule;
            let c = &sc.client;
            let s = &sc.services;
            let l = |v: &Option<u64>| v.unwrap_or(0);
            let hold: u64 = sc.wplan.iter().map(|w| match w { WRule::Pend { ns } => *ns, WRule::PendEvent { ns, .. } => secs(10) + *ns, _ => 0 }).sum();
            if !matches!(c.ka_default, KaPolicy::Never) || !c.ka.is_empty() || !c.extras.is_empty() || c.early_ack || c.coalesce || !c.login_think_ns.is_empty() || !c.send_info || c.ack_delay_ns != 0
                || sc.wplan.iter().any(|w| !matches!(w, WRule::Accept { .. } | WRule::Pend { .. } | WRule::PendEvent { .. })) || hold > secs(15)
                || l(&s.discovery.default.lat_ns) + l(&s.filter.default.lat_ns) + l(&s.strategy.default.lat_ns) < secs(70) || s.auth.default.lat_ns != Some(0)
                || [&s.discovery.default.lat_ns, &s.filter.default.lat_ns, &s.strategy.default.lat_ns].iter().any(|v| v.is_none())
            {
                return RunReport::default();
            }
        }
        if !conn_domain_ok(sc) || sc.cap_ns < secs(600) || sc.client.script.is_some() || !sc.client.mutations.is_empty() || !sc.client.cuts.is_empty() || sc.client.len_pad != 0 || (sc.client.coalesce && !sc.client.early_ack) || !matches!(sc.client.enc, crate::client::EncVariant::Honest) {
            return RunReport::default();
        }
        // tie-freedom is part of the domain: every delay must keep its millisecond offset class
        let c = &sc.client;
        let s = &sc.services;
        let okc = |v: u64, off: u64| v == 0 || v % 1_000_000_000 == off;
        let okl = |v: &Option<u64>, off: u64| v.is_some_and(|v| okc(v, off));
        if !okc(c.ack_delay_ns, OFF_ACK) || !okc(c.info_delay_ns, OFF_INFO) || !okl(&s.auth.default.lat_ns, OFF_AUTH) || !okl(&s.discovery.default.lat_ns, OFF_DISC) || !okl(&s.filter.default.lat_ns, OFF_FILT) || !okl(&s.strategy.default.lat_ns, OFF_STRAT) {
            return RunReport::default();
        }
        for p in c.ka.iter().chain(std::iter::once(&c.ka_default)) {
            if let KaPolicy::Delay { ns } = p
                && ns % 1_000_000_000 != OFF_ECHO
            {
                return RunReport::default();
            }
        }
        if c.login_think_ns.len() > 3 || c.login_think_ns.iter().any(|t| !okc(*t, OFF_THINK)) {
            return RunReport::default();
        }
        if c.extras.iter().any(|e| e.at_ns % 1_000_000_000 != OFF_EXTRA || e.id != 0x04 || !matches!(e.body, Body::KeepAlive { id: KaId::Fixed(_) })) {
            return RunReport::default();
        }
        let out = run_conn(sc);
        let mut rep = base_report(&out);
        rep.nontrivial = out.view.first("KeepAlive").is_some();
        for p in c.ka.iter().chain(std::iter::once(&c.ka_default)) {
            let name = match p {
                KaPolicy::Prompt => continue,
                KaPolicy::Delay { .. } => "echo_delayed",
                KaPolicy::Never => "echo_never",
                KaPolicy::WrongId => "echo_wrong_id",
                KaPolicy::Duplicate => "echo_duplicate",
            };
            *rep.faults.entry(name.into()).or_insert(0) += 1;
        }
        if !c.extras.is_empty() {
            *rep.faults.entry("unsolicited_keep_alive".into()).or_insert(0) += 1;
        }
        if c.early_ack {
            *rep.faults.entry("login_acknowledged_pipelined_behind_encryption_response".into()).or_insert(0) += 1;
        }
        if c.login_think_ns.iter().any(|t| *t >= PERIOD) {
            *rep.faults.entry("client_slow_in_login_phase_beyond_a_period".into()).or_insert(0) += 1;
        }
        if backpressure {
            *rep.faults.entry("keep_alive_write_held_back".into()).or_insert(0) += 1;
            if out.faults.contains_key("write_pending_event") {
                *rep.probes.entry("keep_alive_write_pending_across_a_service_completion".into()).or_insert(0) += 1;
            }
            check_backpressure(sc, &out, &mut rep);
        } else {
            check(sc, &out, &mut rep);
        }
        rep
    }
}
