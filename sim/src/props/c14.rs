//! C14 - operator-configured limits and the connection deadline govern every connection.
//! Net-sim: `passage::start(config)` with a generated configuration value (or a `Listener` with
//! sim services for routing that never completes) and clients that probe the configured frame
//! limit, cookie expiry / secret, and the connection deadline.

use super::c15::{v1_header, v2_header};
use super::common::*;
use crate::client::{ClientSpec, Cut, KaPolicy};
use crate::net::{NetCfg, NetClient, NetOutcome, NetScenario, run_net};
use crate::pipe::{Gate, PipeState, WRule};
use crate::rng::Rng;
use crate::runner::{Check, RunReport, Tier};
use crate::services::{AuthRes, DiscRes, Script, Services, TargetSpec};
use serde::{Deserialize, Serialize};
use serde_json::{Value, json};

pub struct C14;

#[derive(Clone, Debug, Serialize, Deserialize, PartialEq)]
pub enum Role {
    /// status exchange whose handshake frame declares exactly this length
    FrameLen { len: i32 },
    /// transfer with a cookie issued `age_s` before, signed with the configured secret or another one
    Cookie {
        age_s: u64,
        right_secret: bool,
        /// seconds the client takes before it answers the cookie request; the age is the one at that moment
        #[serde(default)]
        think_s: u64,
    },
    /// status exchange whose handshake frame declares its real length plus `high` (2^21, 2^28: a four- or
    /// five-byte length prefix whose low bits look like an ordinary small frame)
    HighBitLen { high: i32 },
    /// logs in; after Login Acknowledged it sends an ignorable frame just below the maximum (the server's
    /// read buffer grows) and then one of `len` > max bytes that arrives in one piece
    LateOversize { len: i32 },
    Silent,
    Trickle { gap_ns: u64 },
    StopsAfter { frames: usize },
    EchoForever,
    /// logs in but stops reading after the server's first `after` writes
    NeverReads { after: usize },
}

#[derive(Clone, Debug, Serialize, Deserialize, PartialEq)]
pub struct C14Sc {
    pub net: NetScenario,
    pub roles: Vec<Role>,
}

/// host string length so that the handshake frame (id + protocol 769 + host + port + next) declares `len`
fn host_len_for(len: i32) -> Option<usize> {
    for v in 1..=3usize {
        let h = len as i64 - 6 - v as i64;
        if h < 0 {
            continue;
        }
        let need = if h < 128 { 1 } else if h < 16384 { 2 } else { 3 };
        if need == v {
            return Some(h as usize);
        }
    }
    None
}

fn generate(rng: &mut Rng) -> C14Sc {
    let use_start = rng.chance(2, 3);
    let max_frame = *rng.pick(&[64i32, 100, 300, 1000, 10_000, 65_536]);
    let expiry = *rng.pick(&[0u64, 1, 60, 21_600, 1_000_000_000]);
    let secret: Option<Vec<u8>> = match rng.below(3) {
        0 => None,
        1 => Some(if rng.chance(1, 3) { b" s3cret with spaces\n".to_vec() } else { b"s3cret".to_vec() }),
        _ => Some(if rng.chance(1, 3) { b"a-secret-of-more-than-one-hmac-block-0123456789abcdef0123456789abcdef-tail-A".to_vec() } else { b"a-much-longer-operator-secret-0123456789".to_vec() }),
    };
    // a third of the application runs get their secret the way an operator gives it: through the environment or the
    // secret file and the application's own configuration loader
    let secret_source = if use_start && rng.chance(1, 3) { Some((rng.below(2) as u8, rng.usize_below(crate::net::SECRET_SOURCES.len()))) } else { None };
    let secret = match secret_source {
        Some((_, idx)) => Some(crate::net::SECRET_SOURCES[idx].as_bytes().to_vec()),
        None => secret,
    };
    let timeout_s = *rng.pick(&[1u64, 5, 30, 120, 600, 0, 32, 48, 64]);
    // with PROXY protocol the client is admitted once its header is complete; the header itself has to
    // arrive within the timeout
    let proxy = if rng.chance(1, 4) { Some((true, true)) } else { None };
    let mut services = Services {
        auth: Script::always(Some(0), AuthRes::Profile { name: "FixedProfile".into(), uuid: format!("{:032x}", 0xfeedu128), props: vec![] }),
        discovery: Script::always(Some(0), DiscRes::Targets(vec![TargetSpec { id: "t0".into(), addr: "10.9.8.7:25565".into(), meta: Default::default() }])),
        ..Default::default()
    };
    let mut roles = vec![];
    let mut clients = vec![];
    let n = rng.range(1, 3);
    let wall = crate::conn::Wall::default();
    for i in 0..n {
        let peer = format!("192.0.2.{}:{}", 10 + i, 40000 + i);
        let effective = if proxy.is_some() { format!("198.51.100.{}:{}", 20 + i, 50000 + i) } else { peer.clone() };
        let role = match rng.below(if use_start { 9 } else { 10 }) {
            0 if rng.chance(1, 4) => Role::HighBitLen { high: *rng.pick(&[1i32 << 21, 1 << 28, 1 << 30, i32::MIN]) },
            // (254, 382, 510: lengths whose prefix starts with the byte 0xFE, the pre-1.7 "legacy ping")
            0 | 1 => Role::FrameLen { len: if max_frame >= 254 && rng.chance(1, 4) { *rng.pick(&[254, 382, 510]).min(&max_frame) } else if rng.chance(1, 2) { max_frame } else { max_frame + 1 } },
            2 | 3 => Role::Cookie {
                age_s: match rng.below(4) {
                    0 => expiry.saturating_sub(1),
                    1 => expiry,
                    2 => expiry + 1,
                    _ => rng.below(expiry.clamp(1, 100_000)),
                },
                right_secret: rng.chance(3, 4),
                think_s: if timeout_s >= 30 { *rng.pick(&[0u64, 0, 1, 3]) } else { 0 },
            },
            6 if max_frame >= 300 && timeout_s >= 5 && rng.chance(1, 2) => Role::LateOversize { len: max_frame + 1 + rng.below(40) as i32 },
            4 => Role::Silent,
            5 => Role::Trickle { gap_ns: secs(rng.range(1, (timeout_s / 4).max(2))) },
            6 | 7 => Role::StopsAfter { frames: rng.range(1, 7) as usize },
            8 => Role::NeverReads { after: rng.range(0, 6) as usize },
            _ => Role::EchoForever,
        };
        let mut wplan = vec![];
        let mut spec;
        match &role {
            Role::FrameLen { len } => {
                spec = ClientSpec::base(rng, 1);
                match host_len_for(*len) {
                    Some(h) => spec.host = "h".repeat(h),
                    None => spec.host = "h".into(),
                }
            }
            Role::HighBitLen { high } => {
                spec = ClientSpec::base(rng, 1);
                let real = crate::codec::handshake_body(spec.protocol, &spec.host, spec.port, 1).len() as i32 + 1;
                spec.mutations.push(crate::client::Mutation { frame: 0, op: crate::client::MutOp::OuterLen { v: *high + real } });
                // the length prefix arrives first, the rest a second later: the refusal must not wait for it
                spec.cuts.push(Cut { at: crate::codec::varint(*high + real).len() as u64, gate: Gate::Delay { ns: secs(1) }, spurious: 0 });
            }
            Role::LateOversize { len } => {
                spec = ClientSpec::base(rng, 2);
                spec.info_delay_ns = secs(1);
                let grow = (max_frame - rng.below(10) as i32 - 1).max(1) as usize;
                spec.extras.push(crate::client::Extra { after_ack: true, at_ns: ms(5), id: 0x02, body: crate::client::Body::Raw { bytes: { let mut b = b"\x0fminecraft:brand".to_vec(); b.resize(grow - 1, 0x2e); b } } });
                spec.extras.push(crate::client::Extra { after_ack: true, at_ns: ms(10), id: 0x02, body: crate::client::Body::Raw { bytes: { let mut b = b"\x0fminecraft:brand".to_vec(); b.resize((*len - 1) as usize, 0x2e); b } } });
            }
            Role::Cookie { age_s, right_secret, think_s } => {
                spec = ClientSpec::base(rng, 3);
                if *think_s > 0 {
                    spec.login_think_ns = vec![0, secs(*think_s)];
                }
                let id = Identity { name: "CookieIdent".into(), uuid: 0xc00c1e, props: vec![] };
                let body = cookie_json((wall.base_s + *think_s).saturating_sub(*age_s), &effective, &id, Some("t0"));
                // (with no secret configured a cookie under the empty key - or any key - means nothing)
                let sec = if *right_secret { secret.clone().unwrap_or_else(|| if rng.chance(1, 2) { vec![] } else { b"none".to_vec() }) } else {
                    // another secret; for long secrets one that shares the whole first HMAC block with the configured one
                    match &secret {
                        Some(sct) if sct.len() > 64 && rng.chance(1, 2) => {
                            let mut o = sct[..64].to_vec();
                            o.extend_from_slice(b"-but-another-tail");
                            o
                        }
                        _ => b"another-secret".to_vec(),
                    }
                };
                spec.auth_cookie = Some(signed_cookie(&sec, &body));
            }
            Role::Silent => {
                spec = ClientSpec::base(rng, 2);
                spec.mute_after = Some(0);
            }
            Role::Trickle { gap_ns } => {
                spec = ClientSpec::base(rng, 2);
                // every byte of the first two frames is its own segment, `gap` apart
                for o in 1..45u64 {
                    spec.cuts.push(Cut { at: o, gate: Gate::Delay { ns: *gap_ns }, spurious: 0 });
                }
            }
            Role::StopsAfter { frames } => {
                let it = if rng.chance(1, 2) { 2 } else { 3 };
                spec = ClientSpec::base(rng, it);
                spec.mute_after = Some(*frames);
                // idle first, then stalling: the first byte comes late (the deadline still counts from the admission)
                if proxy.is_none() && timeout_s >= 5 && rng.chance(1, 3) {
                    spec.cuts.push(Cut { at: 0, gate: Gate::Delay { ns: secs(timeout_s) / 100 * rng.range(30, 90) }, spurious: 0 });
                }
            }
            Role::EchoForever => {
                spec = ClientSpec::base(rng, 2);
                spec.ka_default = KaPolicy::Prompt;
                services.discovery = Script::always(None, DiscRes::Targets(vec![]));
            }
            Role::NeverReads { after } => {
                spec = ClientSpec::base(rng, 2);
                for _ in 0..*after {
                    wplan.push(WRule::Accept { max: 1_000_000 });
                }
                wplan.push(WRule::Stall);
            }
        }
        spec.close_on_end_ns = None;
        spec.coalesce = rng.chance(1, 2);
        // whatever locale a client reports, the deadline holds
        if rng.chance(1, 3) {
            spec.locale = super::c03::gen_locale(rng);
        }
        // (odd but legal locale strings on the connections that get as far as a localized message)
        if matches!(role, Role::StopsAfter { .. } | Role::EchoForever | Role::NeverReads { .. }) && rng.chance(1, 6) {
            spec.locale = (*rng.pick(&["_US", "_", "__", "de_", "a_b_c", "abcdefghijklmno\u{e9}xyz", ""])).to_string();
        }
        if proxy.is_some() {
            let src: std::net::SocketAddr = effective.parse().unwrap();
            let dst: std::net::SocketAddr = "192.0.2.200:25565".parse().unwrap();
            let mut h = if rng.chance(1, 2) { v1_header(&src, &dst) } else { v2_header(&src, &dst, false) };
            // a valid header that announces no address (v2 LOCAL, v1 UNKNOWN - health checks of a load balancer): the
            // connection counts under its TCP peer and is bounded like any other
            if matches!(role, Role::Silent | Role::Trickle { .. } | Role::StopsAfter { .. }) && rng.chance(1, 3) {
                h = if rng.chance(1, 2) { v2_header(&src, &dst, true) } else { b"PROXY UNKNOWN\r\n".to_vec() };
            }
            let hl = h.len() as u64;
            // every cut the role made counts from the first protocol byte: move it behind the header
            for c in &mut spec.cuts {
                c.at += hl;
            }
            spec.preamble = Some(h);
            if rng.chance(1, 2) {
                let d = (*rng.pick(&[secs(1), secs(timeout_s) / 2, secs(timeout_s).saturating_sub(ms(500))])).max(ms(1));
                spec.cuts.push(Cut { at: rng.range(1, hl - 1), gate: Gate::Delay { ns: d }, spurious: 0 });
            }
        }
        clients.push(NetClient { connect_at_ns: ms(rng.range(0, 3000)), peer, spec, wplan });
        roles.push(role);
    }
    C14Sc {
        net: NetScenario {
            seed: rng.next_u64(),
            cfg: NetCfg { secret, expiry: Some(expiry), max_frame: Some(max_frame), timeout_ns: secs(timeout_s), proxy, limiter: None, use_start, agones: false, secret_source, localization_from_services: false },
            wall,
            services,
            clients,
            stop_at_ns: None,
            stop_before: false,
            yields_before_stop: 0,
            relisten: false,
            cap_ns: 2 * secs(timeout_s) + secs(30),
        },
        roles,
    }
}

fn plen_of(c: &NetClient) -> u64 {
    c.spec.preamble.as_ref().map(|p| p.len() as u64).unwrap_or(0)
}

pub fn check(sc: &C14Sc, out: &NetOutcome, rep: &mut RunReport) {
    if !out.panics.is_empty() {
        rep.violate("no_panic", format!("panicked: {}", out.panics[0].replace('\n', " ")));
        return;
    }
    let cfg = &sc.net.cfg;
    let max = cfg.max_frame.unwrap_or(10_000);
    for (i, (c, role)) in out.clients.iter().zip(sc.roles.iter()).enumerate() {
        if c.refused {
            rep.violate("listener_accepts", format!("client {i} could not connect"));
            continue;
        }
        let Some(acc) = c.accepted_ns else {
            rep.violate("listener_accepts", format!("client {i} was never accepted"));
            continue;
        };
        // admitted when accepted, or - with PROXY protocol - when the header was complete, which itself has
        // to happen within the timeout
        let plen = sc.net.clients[i].spec.preamble.as_ref().map(|p| p.len() as u64).unwrap_or(0);
        let hdr = if plen > 0 { PipeState::avail_at(&c.avail, plen).unwrap_or(u64::MAX) } else { acc };
        let acc = if hdr <= acc + cfg.timeout_ns { acc.max(hdr) } else { acc };
        // the deadline, whatever the client does
        match c.closed_ns {
            Some(t) if t <= acc + cfg.timeout_ns => {}
            other => rep.violate(
                "closed_within_timeout",
                format!("client {i} ({role:?}) admitted at {acc} ns, timeout {} ns, server end closed at {:?}", cfg.timeout_ns, other),
            ),
        }
        // closing means letting go of the socket, not just ending the server's own direction: a server that
        // keeps reading from a half-closed connection for as long as the client likes has not closed it
        match c.released_ns {
            // (one second of grace: ending the own direction at the deadline and dropping the socket a moment later is fine)
            Some(t) if t <= acc + cfg.timeout_ns + secs(1) => {}
            other => rep.violate(
                "released_within_timeout",
                format!("client {i} ({role:?}) admitted at {acc} ns, timeout {} ns, server end shut down at {:?} but let go of only at {:?}", cfg.timeout_ns, c.closed_ns, other),
            ),
        }
        if cfg.timeout_ns == 0 {
            continue; // a zero timeout leaves no time to serve anything: only the deadline rule applies
        }
        // a client that fell silent in the configuration phase: if the connection lives to the instant the next Keep Alive
        // is due - also when that instant is the deadline itself - it is told so (timeout Disconnect), not just cut off
        if let Role::StopsAfter { .. } = role
            && let Some(ka) = c.view.packets.iter().rev().find(|p| p.kind == "KeepAlive")
            && !c.view.sent.iter().any(|s| s.t_ns >= ka.t_ns)
            && c.closed_ns.is_some_and(|t| t >= ka.t_ns + secs(16))
            && ka.t_ns + secs(16) <= acc + cfg.timeout_ns
            && c.view.first("Transfer").is_none()
            && c.view.first("Disconnect").is_none()
        {
            rep.violate(
                "silent_client_is_told_before_the_deadline_closes",
                format!("client {i} ({role:?}) left the Keep Alive of {} ns unanswered, the connection lived until {:?} (admitted {acc}, timeout {} ns), yet no timeout Disconnect was sent: packets {:?}", ka.t_ns, c.closed_ns, cfg.timeout_ns, c.view.kinds()),
            );
        }
        match role {
            Role::FrameLen { len } => {
                let served = c.view.first("StatusResponse").is_some();
                let hl = host_len_for(*len);
                if hl.is_none() {
                    continue;
                }
                if *len <= max && !served {
                    rep.violate("frame_within_configured_max_is_served", format!("handshake frame of {len} bytes (configured maximum {max}) was not served: packets {:?}", c.view.kinds()));
                }
                if *len > max && (served || c.rx_total > 0) {
                    rep.violate("frame_over_configured_max_is_refused", format!("handshake frame of {len} bytes was served although the configured maximum is {max}"));
                }
            }
            Role::HighBitLen { high } => {
                if c.view.first("StatusResponse").is_some() || c.rx_total > 0 {
                    rep.violate("frame_over_configured_max_is_refused", format!("a handshake frame that declares its length with {high} added (configured maximum {max}) was served: packets {:?}", c.view.kinds()));
                }
                // refused on its declared length, i.e. as soon as the prefix is there (not by misreading what follows)
                let spec = &sc.net.clients[i].spec;
                let real = crate::codec::handshake_body(spec.protocol, &spec.host, spec.port, 1).len() as i32 + 1;
                let pl = crate::codec::varint(*high + real).len() as u64;
                let t_prefix = PipeState::avail_at(&c.avail, plen + pl).unwrap_or(u64::MAX);
                if cfg.timeout_ns >= secs(5) && spec.cuts.iter().any(|k| k.at == plen + pl && matches!(k.gate, Gate::Delay { ns } if ns >= ms(500))) && c.closed_ns.is_none_or(|t| t > t_prefix) {
                    rep.violate("frame_over_configured_max_is_refused", format!("the length prefix declaring {} bytes (configured maximum {max}) was there at {t_prefix} ns, the server closed at {:?}", *high + real, c.closed_ns));
                }
            }
            Role::LateOversize { len } => {
                // the second extra is the over-long one; by the time it is there in one piece the connection is refused
                let Some(f) = c.view.sent.iter().filter(|s| s.kind == "Extra").nth(1) else { continue };
                if (f.end - f.start) as i64 <= i64::from(max) {
                    continue;
                }
                let t_frame = PipeState::avail_at(&c.avail, plen + f.end).unwrap_or(u64::MAX);
                let went_on = c.view.packets.iter().any(|p| matches!(p.kind.as_str(), "Transfer" | "StoreCookie") || (p.kind == "Disconnect" && p.t_ns > t_frame));
                match c.closed_ns {
                    Some(t) if t <= t_frame && !went_on => {}
                    other => rep.violate("late_frame_over_configured_max_is_refused", format!("a configuration-phase frame of {len} bytes (configured maximum {max}) was available in one piece at {t_frame} ns; server closed at {:?}, packets {:?}", other, c.view.kinds())),
                }
            }
            Role::Cookie { age_s, right_secret, .. } => {
                if c.view.sent.iter().any(|s| (s.end - s.start) as i64 > i64::from(max)) {
                    continue; // the client's own frames exceed the configured maximum: refusing them is correct
                }
                let spec = &sc.net.clients[i].spec;
                let t = c.view.sent.iter().filter(|s| s.kind == "CookieResponse").nth(1).map(|s| s.t_ns).unwrap_or(0);
                let effective = if cfg.proxy.is_some() { format!("198.51.100.{}:{}", 20 + i, 50000 + i) } else { sc.net.clients[i].peer.clone() };
                let pred = cookie_accepted(3, cfg.secret.as_deref(), spec.auth_cookie.as_deref(), &effective, sc.net.wall.at(t), cfg.expiry.unwrap_or(21_600));
                let Some(er) = c.view.first("EncryptionRequest") else {
                    rep.violate("cookie_connection_progresses", format!("client {i}: no Encryption Request, packets {:?}", c.view.kinds()));
                    continue;
                };
                let skipped = er.fields["should_authenticate"] == json!(0);
                if pred.is_some() != skipped {
                    rep.violate(
                        if *right_secret { "configured_expiry_governs_cookies" } else { "configured_secret_governs_cookies" },
                        format!("cookie aged {age_s} s (configured expiry {:?}, right secret {right_secret}, secret configured {}): should be accepted = {}, was accepted = {skipped}", cfg.expiry, cfg.secret.is_some(), pred.is_some()),
                    );
                }
            }
            _ => {}
        }
    }
}

impl Check for C14 {
    type Sc = C14Sc;
    fn id(&self) -> &'static str {
        "C14"
    }
    fn level(&self) -> &'static str {
        "exploration"
    }
    fn rule_text(&self) -> String {
        "random configurations (maximum frame 64..65536, cookie expiry 0..10^9 s, secret none/short/long, timeout 1..600 s) started either through passage::start(config) with built-in adapters (2/3) or as a Listener with sim services whose discovery never answers (1/3), with 1-3 clients of the kinds: status exchange whose handshake frame declares exactly max or max+1 bytes; transfer presenting a cookie aged expiry-1 / expiry / expiry+1 / random under the configured or another secret; silent; one byte every k seconds; stops after n frames; echoes every keep-alive forever; stops reading; logs in and sends an over-long frame once the read buffer has grown; a handshake that declares its real length plus 2^21 / 2^28 / 2^30 (prefix first); handshake frames of 254 / 382 / 510 bytes. A third of the application runs take their secret from the environment variable or the secret file through Config::read(). Non-trivial = a client actually probed a limit (frame, cookie or deadline reached); distinct = distinct (event-order trace, roles, configuration class) hash.".into()
    }
    fn assumptions(&self) -> Vec<String> {
        vec![
            "PROXY protocol is off here, so admission time = accept time (C15/C16 cover PROXY)".into(),
            "with passage::start the built-in Fixed adapters stand in for real back-ends; ctrl-c is never raised".into(),
        ]
    }
    fn components(&self) -> Value {
        json!({"real": ["passage::start (src/lib.rs)", "passage::config::Config value -> adapters", "Config::read() for the secret (environment variable / secret file, once per source at process start)", "Listener::listen / handle", "Connection", "built-in Fixed* adapters (start mode)"], "stub": ["network (hook H1 SimNet)", "clients", "sim services (listener mode)", "wall clock"]})
    }
    fn count(&self, tier: Tier) -> u64 {
        match tier {
            Tier::Quick => 60_000,
            Tier::Thorough => 3_000_000,
        }
    }
    fn generate(&self, rng: &mut Rng, _index: u64, _tier: Tier) -> C14Sc {
        generate(rng)
    }
    fn execute(&self, sc: &C14Sc) -> RunReport {
        if !net_domain_ok(&sc.net) {
            return RunReport::default();
        }
        if let Some((kind, idx)) = sc.net.cfg.secret_source
            && (!sc.net.cfg.use_start || kind > 1 || crate::net::SECRET_SOURCES.get(idx).map(|r| r.as_bytes().to_vec()) != sc.net.cfg.secret)
        {
            return RunReport::default();
        }
        if sc.roles.len() != sc.net.clients.len() || !matches!(sc.net.cfg.proxy, None | Some((true, true))) || sc.net.cfg.limiter.is_some() || sc.net.cap_ns < 2 * sc.net.cfg.timeout_ns + secs(10) || sc.net.cfg.timeout_ns % secs(1) != 0 {
            return RunReport::default();
        }
        // roles and client programs must still agree (the shrinker may alter either)
        for (c, r) in sc.net.clients.iter().zip(sc.roles.iter()) {
            let ok = match r {
                Role::FrameLen { len } => c.spec.intent == 1 && host_len_for(*len).is_some_and(|h| c.spec.host.len() == h) && c.spec.protocol == 769 && c.spec.cuts.iter().all(|k| k.at < plen_of(c)),
                Role::Cookie { .. } => c.spec.intent == 3 && c.spec.mute_after.is_none() && c.spec.cuts.iter().all(|k| k.at < plen_of(c)),
                Role::LateOversize { len } => c.spec.intent == 2 && c.spec.mute_after.is_none() && c.spec.close_after.is_none() && c.spec.cuts.iter().all(|k| k.at < plen_of(c)) && c.spec.extras.len() == 2 && c.spec.extras.iter().all(|x| x.after_ack && x.id == 0x02) && c.spec.extras[0].at_ns < c.spec.extras[1].at_ns && c.spec.info_delay_ns >= ms(500) && c.spec.extras[1].at_ns < ms(400) && matches!(&c.spec.extras[1].body, crate::client::Body::Raw { bytes } if bytes.len() as i32 == *len - 1),
                _ => true,
            };
            let mutations_ok = match r {
                Role::HighBitLen { high } => {
                    let real = crate::codec::handshake_body(c.spec.protocol, &c.spec.host, c.spec.port, 1).len() as i32 + 1;
                    c.spec.intent == 1 && (*high >= (1 << 21) || *high == i32::MIN) && c.spec.mutations == vec![crate::client::Mutation { frame: 0, op: crate::client::MutOp::OuterLen { v: *high + real } }] && c.spec.cuts.iter().all(|k| k.at < plen_of(c) || k.at == plen_of(c) + crate::codec::varint(*high + real).len() as u64)
                }
                _ => c.spec.mutations.is_empty(),
            };
            if !ok || c.spec.script.is_some() || !mutations_ok || c.spec.preamble.is_some() != sc.net.cfg.proxy.is_some() {
                return RunReport::default();
            }
            // the header a client announces must be the one the oracle assumes (index-derived source)
            if let Some(p) = &c.spec.preamble {
                let i = sc.net.clients.iter().position(|x| x.peer == c.peer).unwrap_or(0);
                let src: std::net::SocketAddr = format!("198.51.100.{}:{}", 20 + i, 50000 + i).parse().unwrap();
                let dst: std::net::SocketAddr = "192.0.2.200:25565".parse().unwrap();
                let addressless = matches!(r, Role::Silent | Role::Trickle { .. } | Role::StopsAfter { .. }) && (*p == v2_header(&src, &dst, true) || p.as_slice() == b"PROXY UNKNOWN\r\n");
                if *p != v1_header(&src, &dst) && *p != v2_header(&src, &dst, false) && !addressless {
                    return RunReport::default();
                }
            }
        }
        let out = run_net(&sc.net);
        let mut rep = RunReport {
            runs: 1,
            trace_hash: out.trace_hash(),
            full_hash: out.full_hash(),
            sim_ns: out.end_ns,
            ..Default::default()
        };
        rep.merge_counts(&out.faults, &out.probes);
        let mut h = crate::rng::Fnv(rep.trace_hash);
        h.write_str(&format!("{:?}{:?}{}", sc.roles, sc.net.cfg.max_frame, sc.net.cfg.use_start));
        rep.trace_hash = h.0;
        rep.nontrivial = true;
        if sc.net.cfg.proxy.is_some() {
            *rep.faults.entry("proxy_protocol_enabled".into()).or_insert(0) += 1;
        }
        if sc.net.cfg.secret_source.is_some() {
            *rep.faults.entry("secret_through_the_configuration_loader".into()).or_insert(0) += 1;
        }
        if sc.net.clients.iter().any(|c| c.spec.cuts.iter().any(|k| k.at < plen_of(c))) {
            *rep.faults.entry("proxy_header_trickles_in".into()).or_insert(0) += 1;
        }
        if sc.net.clients.iter().any(|c| c.spec.preamble.is_none() && c.spec.cuts.iter().any(|k| k.at == 0)) {
            *rep.faults.entry("client_first_byte_late_then_stalls".into()).or_insert(0) += 1;
        }
        for r in &sc.roles {
            let name = match r {
                Role::FrameLen { .. } => "client_frame_at_limit",
                Role::Cookie { .. } => "client_cookie_at_expiry",
                Role::LateOversize { .. } => "client_overlong_frame_after_login",
                Role::HighBitLen { .. } => "client_length_prefix_with_high_bit",
                Role::Silent => "client_silent",
                Role::Trickle { .. } => "client_trickle",
                Role::StopsAfter { .. } => "client_stops_mid_protocol",
                Role::EchoForever => "client_echoes_forever_routing_stalled",
                Role::NeverReads { .. } => "client_never_reads",
            };
            *rep.faults.entry(name.into()).or_insert(0) += 1;
        }
        check(sc, &out, &mut rep);
        rep
    }
}
