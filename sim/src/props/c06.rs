//! C06 - packets are only exchanged in protocol order; status and login never mix.
//! Scripted client sequences (legal, out of phase, repeated, unknown id, unknown next-state, EOF
//! anywhere) against the real Connection; the observed clientbound kind sequence must be the one
//! a small reference automaton, written from the property text, produces for the same script.

use super::common::*;
use crate::client::{Body, ClientSpec, EncVariant, KaId, Step};
use crate::conn::{ConnCfg, ConnOutcome, ConnScenario, Wall};
use crate::rng::Rng;
use crate::runner::{Check, RunReport, Tier};
use crate::services::{DiscRes, Script, Services, StatusRes, StratRes};
use serde_json::{Value, json};

pub struct C06;

#[derive(Clone, Copy, Debug, PartialEq)]
enum St {
    Handshake,
    StatusReq,
    StatusPing,
    LoginStart,
    AwaitSession,
    AwaitAuthCookie,
    AwaitEnc,
    AwaitAck,
    Config,
    End,
}

struct Model {
    st: St,
    intent: i32,
    expect: Vec<String>,
    /// from this script index on the property is silent (unknown packet inside configuration, or an
    /// ambiguous body under the expected id): only the prefix is compared
    dont_care_from: Option<usize>,
    presented_session: bool,
    ping: Option<u64>,
    ack_step: Option<usize>,
    info_step: Option<usize>,
    /// burst scripts only: frames that follow Client Information at the same instant race with the
    /// (instant) routing; if one of them is not ignorable the connection may legitimately end before
    /// the routing result is written - then this shorter sequence is accepted as well
    alt_expect: Option<Vec<String>>,
}

fn expected_id(st: St) -> Option<i32> {
    Some(match st {
        St::Handshake => 0x00,
        St::StatusReq => 0x00,
        St::StatusPing => 0x01,
        St::LoginStart => 0x00,
        St::AwaitSession | St::AwaitAuthCookie => 0x04,
        St::AwaitEnc => 0x01,
        St::AwaitAck => 0x03,
        St::Config | St::End => return None,
    })
}

/// The reference automaton: feeds the script and lists the clientbound kinds the property prescribes.
fn model(sc: &ConnScenario) -> Model {
    let mut m = Model {
        st: St::Handshake,
        intent: 0,
        expect: vec![],
        dont_care_from: None,
        presented_session: false,
        ping: None,
        ack_step: None,
        info_step: None,
        alt_expect: None,
    };
    let mut by_cookie = false;
    let secret = sc.cfg.secret.is_some();
    let has_target = matches!(&sc.services.discovery.default.res, DiscRes::Targets(t) if !t.is_empty());
    let steps = sc.client.script.clone().unwrap_or_default();
    for (i, step) in steps.iter().enumerate() {
        if m.st == St::End || m.dont_care_from.is_some() {
            break;
        }
        let (id, body, enc) = match step {
            Step::Frame { id, body } => (*id, Some(body), None),
            Step::Enc { variant } => (0x01, None, Some(variant)),
            Step::Close { .. } => {
                m.st = St::End;
                break;
            }
            Step::WaitNs { .. } => continue,
            Step::RawBytes { .. } => {
                m.dont_care_from = Some(i);
                break;
            }
        };
        if m.st == St::Config {
            match (id, body) {
                (0x04, Some(Body::KeepAlive { .. })) | (0x02, Some(Body::Raw { .. })) | (0x06, Some(Body::ResourcePack { result: 0..=7 })) | (0x01, Some(Body::Raw { .. })) => continue,
                (0x00, Some(Body::ClientInfo { .. })) => {
                    m.info_step = Some(i);
                    if sc.client.script_gap_ns == 0 {
                        let racy = steps[i + 1..].iter().take_while(|s| !matches!(s, Step::Close { .. })).any(|s| {
                            !matches!(
                                s,
                                Step::WaitNs { .. }
                                    | Step::Frame { id: 0x04, body: Body::KeepAlive { .. } }
                                    | Step::Frame { id: 0x02, body: Body::Raw { .. } }
                                    | Step::Frame { id: 0x06, body: Body::ResourcePack { result: 0..=7 } }
                                    | Step::Frame { id: 0x00, body: Body::ClientInfo { .. } }
                            )
                        });
                        if racy {
                            m.alt_expect = Some(m.expect.clone());
                        }
                    }
                    if has_target {
                        if secret && !by_cookie {
                            m.expect.push("StoreCookie:passage:authentication".into());
                        }
                        if !m.presented_session {
                            m.expect.push("StoreCookie:passage:session".into());
                        }
                        m.expect.push("Transfer".into());
                    } else {
                        m.expect.push("Disconnect".into());
                    }
                    m.st = St::End;
                }
                _ => {
                    m.dont_care_from = Some(i);
                }
            }
            continue;
        }
        let want = expected_id(m.st).unwrap();
        if id != want {
            m.st = St::End;
            break;
        }
        // the expected id: is it the expected packet?
        match (m.st, body, enc) {
            (St::Handshake, Some(Body::Handshake { next, .. }), _) => match next {
                1 => {
                    m.intent = 1;
                    m.st = St::StatusReq;
                }
                2 | 3 => {
                    m.intent = *next;
                    m.st = St::LoginStart;
                }
                _ => m.st = St::End,
            },
            (St::StatusReq, Some(Body::Empty), _) => {
                m.expect.push("StatusResponse".into());
                m.st = St::StatusPing;
            }
            (St::StatusPing, Some(Body::Ping { payload }), _) => {
                m.ping = Some(*payload);
                m.expect.push("Pong".into());
                m.st = St::End;
            }
            (St::LoginStart, Some(Body::LoginStart { .. }), _) => {
                m.expect.push("CookieRequest:passage:session".into());
                m.st = St::AwaitSession;
            }
            // a session cookie that is not one (e.g. the authentication cookie sent in its place): the property does not
            // say how it is taken - don't care from here
            (St::AwaitSession, Some(Body::Cookie { payload: Some(p), .. }), _) if serde_json::from_slice::<Value>(p).ok().is_none_or(|v| !(v["id"].is_string() && v["server_address"].is_string() && v["server_port"].is_u64())) => {
                m.dont_care_from = Some(i);
            }
            (St::AwaitSession, Some(Body::Cookie { payload, .. }), _) => {
                m.presented_session = payload.is_some();
                if m.intent == 3 && secret {
                    m.expect.push("CookieRequest:passage:authentication".into());
                    m.st = St::AwaitAuthCookie;
                } else {
                    m.expect.push("EncryptionRequest".into());
                    m.st = St::AwaitEnc;
                }
            }
            (St::AwaitAuthCookie, Some(Body::Cookie { payload: None, .. }), _) => {
                m.expect.push("EncryptionRequest".into());
                m.st = St::AwaitEnc;
            }
            // a genuine cookie: the same packets follow, only no new authentication cookie is issued at the end
            (St::AwaitAuthCookie, Some(Body::Cookie { payload: Some(p), .. }), _) if cookie_accepted(3, sc.cfg.secret.as_deref(), Some(p), &sc.cfg.client_addr, sc.wall.base_s, expiry_of(sc)).is_some() => {
                by_cookie = true;
                m.expect.push("EncryptionRequest".into());
                m.st = St::AwaitEnc;
            }
            (St::AwaitEnc, None, Some(v)) => {
                // (a 16-byte secret of the client's own choosing with the honest token is an honest response too)
                if matches!(v, EncVariant::Honest | EncVariant::SecretLen { len: 16 }) || matches!(v, EncVariant::TokenPrefix { len } if *len >= 32) || matches!(v, EncVariant::TokenExtended { extra: 0 }) {
                    m.expect.push("LoginSuccess".into());
                    m.st = St::AwaitAck;
                } else {
                    m.st = St::End;
                }
            }
            (St::AwaitAck, Some(Body::Empty), _) => {
                m.ack_step = Some(i);
                m.st = St::Config;
            }
            // expected id, but a body this model does not classify
            _ => m.dont_care_from = Some(i),
        }
    }
    m
}

fn observed_kinds(out: &ConnOutcome) -> Vec<String> {
    out.view
        .packets
        .iter()
        .filter(|p| p.kind != "KeepAlive")
        .map(|p| match p.kind.as_str() {
            "CookieRequest" | "StoreCookie" => format!("{}:{}", p.kind, p.fields["key"].as_str().unwrap_or("?")),
            k => k.to_string(),
        })
        .collect()
}

fn session_json(rng: &mut Rng) -> Vec<u8> {
    serde_json::to_vec(&json!({"id": uuid_hyph(gen_uuid(rng)), "server_address": "x", "server_port": 1, "trace_id": null})).unwrap()
}

fn any_packet(rng: &mut Rng, avoid: Option<i32>) -> Step {
    loop {
        let id = *rng.pick(&[0x00, 0x01, 0x02, 0x03, 0x04, 0x05, 0x06, 0x07, 0x7f, 0x10]);
        if Some(id) == avoid {
            continue;
        }
        let body = match rng.below(6) {
            0 => Body::Empty,
            1 => Body::Ping { payload: rng.next_u64() },
            2 => Body::KeepAlive { id: KaId::Fixed(rng.next_u64()) },
            3 => { let l = rng.range(0, 12) as usize; Body::Raw { bytes: rng.bytes(l) } }
            4 => Body::LoginStart { name: "Intruder".into(), uuid: format!("{:032x}", gen_uuid(rng)) },
            _ => Body::ClientInfo { locale: "en_US".into() },
        };
        return Step::Frame { id, body };
    }
}

fn generate(rng: &mut Rng) -> ConnScenario {
    let client_addr = gen_addr(rng);
    let secret = if rng.chance(1, 2) { Some(rng.bytes(16)) } else { None };
    let intent = *rng.pick(&[1, 1, 2, 3, 3]);
    let has_target = rng.chance(2, 3);
    let services = Services {
        status: Script::always(
            Some(0),
            match rng.below(5) {
                0 => StatusRes::None,
                1 => StatusRes::Minimal,
                // answers around and beyond 16 KiB (the frame length prefix grows to three bytes at 16384)
                2 => StatusRes::Big { favicon_len: *rng.pick(&[3_000usize, 16_100, 16_300, 20_000, 30_000]), sample: *rng.pick(&[0usize, 1, 12]) },
                _ => StatusRes::Full { name: "Sim 1.21".into(), online: rng.below(100) as u32, max: 100, description: (*rng.pick(&["hello \"world\"", "§aHello – wörld ❤", "日本語のサーバー"])).into() },
            },
        ),
        discovery: Script::always(Some(0), DiscRes::Targets(if has_target { vec![gen_target(rng, 0)] } else { vec![] })),
        strategy: Script::always(Some(0), StratRes::First),
        ..Default::default()
    };
    // plain-text messages (not JSON components), some beginning like something else
    let mut services = services;
    if rng.chance(1, 4) {
        let lead = *rng.pick(&["", "[Passage] ", "[", "\"q\" ", "7 ", "\u{a7}c"]);
        let t = services.localization.messages.get_mut("en").expect("default table");
        t.insert("disconnect_no_target".into(), format!("{lead}nowhere to go"));
        t.insert("disconnect_timeout".into(), format!("{lead}too slow"));
    }
    // the legal script for this intent
    // (some host names make the handshake frame 254 / 382 / 510 bytes long: its length prefix then starts with 0xFE, 0xFE 0x02 ...)
    let host: String = if rng.chance(1, 10) { "h".repeat(*rng.pick(&[246usize, 374, 502, 118, 119])) } else { "mc.example.org".into() };
    let mut legal: Vec<Step> = vec![Step::Frame {
        id: 0,
        body: Body::Handshake { protocol: 769, host, port: 25565, next: intent },
    }];
    if intent == 1 {
        legal.push(Step::Frame { id: 0, body: Body::Empty });
        legal.push(Step::Frame { id: 1, body: Body::Ping { payload: rng.next_u64() } });
    } else {
        legal.push(Step::Frame { id: 0, body: Body::LoginStart { name: "Steve".into(), uuid: format!("{:032x}", gen_uuid(rng)) } });
        let sess = if rng.chance(1, 2) { Some(session_json(rng)) } else { None };
        legal.push(Step::Frame { id: 4, body: Body::Cookie { key: SESSION_KEY.into(), payload: sess } });
        if intent == 3 && secret.is_some() {
            // half of the returning players bring a genuine cookie (the Encryption Response is still required)
            let payload = if rng.chance(1, 2) {
                let id = Identity { name: "Returning".into(), uuid: gen_uuid(rng), props: vec![] };
                Some(signed_cookie(secret.as_ref().unwrap(), &cookie_json(Wall::default().base_s - rng.below(600), &client_addr, &id, Some("t"))))
            } else {
                None
            };
            legal.push(Step::Frame { id: 4, body: Body::Cookie { key: AUTH_KEY.into(), payload } });
        }
        legal.push(Step::Enc { variant: EncVariant::Honest });
        legal.push(Step::Frame { id: 3, body: Body::Empty });
        for _ in 0..rng.below(3) {
            legal.push(match rng.below(4) {
                0 => Step::Frame { id: 4, body: Body::KeepAlive { id: KaId::Fixed(rng.next_u64()) } },
                1 => Step::Frame { id: 2, body: Body::Raw { bytes: rng.bytes(9) } },
                2 => Step::Frame { id: 6, body: Body::ResourcePack { result: rng.below(8) as i32 } },
                _ => Step::Frame { id: 1, body: Body::Raw { bytes: rng.bytes(5) } },
            });
        }
        legal.push(Step::Frame { id: 0, body: Body::ClientInfo { locale: "en_US".into() } });
    }
    // deviation
    let mut script: Vec<Step> = vec![];
    let dev_at = if rng.chance(1, 5) { legal.len() } else { rng.usize_below(legal.len() + 1) };
    for (i, s) in legal.iter().enumerate() {
        if i == dev_at {
            match rng.below(8) {
                0 => script.push(Step::Close { reset: rng.chance(1, 3) }),
                1 => script.push(s.clone()), // repeated later: push twice
                2 => {
                    // unknown next-state / dishonest response in place of the expected one
                    match s {
                        Step::Frame { id: 0, body: Body::Handshake { protocol, host, port, .. } } => script.push(Step::Frame {
                            id: 0,
                            body: Body::Handshake { protocol: *protocol, host: host.clone(), port: *port, next: *rng.pick(&[0, 4, -1, 255]) },
                        }),
                        Step::Enc { .. } => script.push(Step::Enc { variant: super::c01::gen_enc(rng) }),
                        _ => script.push(any_packet(rng, None)),
                    }
                    continue;
                }
                3 => {
                    // skip the expected packet
                    continue;
                }
                _ => script.push(any_packet(rng, None)),
            }
        }
        script.push(s.clone());
    }
    for _ in 0..rng.below(3) {
        script.push(any_packet(rng, None));
    }
    script.truncate(12);
    script.push(Step::Close { reset: false });
    let mut client = ClientSpec::base(rng, intent);
    client.script = Some(script);
    client.close_on_end_ns = None;
    let mut sc = ConnScenario {
        seed: rng.next_u64(),
        cfg: ConnCfg { secret, expiry: None, max_frame: None, client_addr },
        wall: Wall::default(),
        services,
        client,
        wplan: vec![],
        cap_ns: secs(120),
        prelude: vec![],
        growth: None,
    };
    zero_time_noise(rng, &mut sc);
    // whole scripts in one burst: every frame is in the pipe before the server reads the first
    if rng.chance(1, 3) {
        sc.client.script_gap_ns = 0;
    }
    // a status service that takes its time while the client has already sent (pipelined) its ping: the legal
    // script, the client waits for the answers before it hangs up
    if intent == 1 && rng.chance(1, 4) {
        let lat = *rng.pick(&[ms(5), ms(300), secs(3)]);
        sc.services.status.default.lat_ns = Some(lat);
        let mut script = legal.clone();
        script.push(Step::WaitNs { ns: lat + secs(1) });
        script.push(Step::Close { reset: false });
        sc.client.script = Some(script);
    }
    // an earlier connection of the same process ended abruptly with output still queued
    if rng.chance(1, 10) {
        sc.prelude = vec![abrupt_prelude(rng, &sc)];
    }
    sc
}

pub fn check(sc: &ConnScenario, out: &ConnOutcome, rep: &mut RunReport) {
    if !out.panics.is_empty() {
        rep.violate("no_panic", format!("handler panicked: {}", out.panics[0]));
        return;
    }
    let m = model(sc);
    let obs = observed_kinds(out);
    let steps = sc.client.script.clone().unwrap_or_default();
    if let Some(u) = &out.view.undecodable {
        rep.violate("stream_decodes", format!("{u}; expected kinds {:?}", m.expect));
        return;
    }
    match m.dont_care_from {
        None => {
            if obs != m.expect && m.alt_expect.as_ref() != Some(&obs) {
                rep.violate("order_matches_automaton", format!("script {} -> expected {:?}, observed {:?} (result {} {})", brief(&steps), m.expect, obs, out.result, out.result_text));
            }
        }
        Some(_) => {
            // the prefix up to the silent point must match; afterwards only automaton-legal continuations
            if obs.len() < m.expect.len() || obs[..m.expect.len()] != m.expect[..] {
                rep.violate("order_matches_automaton", format!("script {} -> expected prefix {:?}, observed {:?}", brief(&steps), m.expect, obs));
            }
        }
    }
    // status answer and pong payload
    if let Some(p) = out.view.first("StatusResponse") {
        let body: Option<Value> = p.fields["body"].as_str().and_then(|b| serde_json::from_str(b).ok());
        let svc = out.events("svc:status", "done").next().map(|e| e.detail["result"].clone());
        if body != svc {
            rep.violate("status_body_is_service_answer", format!("Status Response body {:?}, service answered {:?}", body, svc));
        }
    }
    if let (Some(p), Some(want)) = (out.view.first("Pong"), m.ping)
        && p.fields["payload"] != json!(want)
    {
        rep.violate("pong_echoes_payload", format!("ping {want}, pong {}", p.fields["payload"]));
    }
    // nothing routing-related before Login Acknowledged and Client Information
    let routing_call = out.log.iter().find(|e| matches!(e.actor.as_str(), "svc:discovery" | "svc:filter" | "svc:strategy") && e.kind == "call");
    if let Some(rc) = routing_call {
        let sent_before = |idx: Option<usize>| -> bool {
            // script step k is the k-th "send" of the client (WaitNs / Close are not frames)
            let Some(idx) = idx else { return false };
            let frames_before = steps[..=idx].iter().filter(|s| matches!(s, Step::Frame { .. } | Step::Enc { .. } | Step::RawBytes { .. })).count();
            out.view.sent.get(frames_before - 1).is_some_and(|s| s.t_ns <= rc.t_ns)
        };
        if m.dont_care_from.is_none() && !(sent_before(m.ack_step) && sent_before(m.info_step)) {
            rep.violate("routing_after_ack_and_info", format!("{} consulted before Login Acknowledged and Client Information (script {})", rc.actor, brief(&steps)));
        }
    }
    // Login Success never before a valid Encryption Response
    if out.view.first("LoginSuccess").is_some() && !steps.iter().any(|s| matches!(s, Step::Enc { variant } if matches!(variant, EncVariant::Honest | EncVariant::SecretLen { len: 16 } | EncVariant::TokenExtended { extra: 0 }) || matches!(variant, EncVariant::TokenPrefix { len } if *len >= 32))) {
        rep.violate("login_success_needs_encryption_response", "Login Success without an honest Encryption Response in the script".into());
    }
    // status and login never mix
    let status_kinds = obs.iter().any(|k| k == "StatusResponse" || k == "Pong");
    let login_kinds = obs.iter().any(|k| !(k == "StatusResponse" || k == "Pong"));
    if status_kinds && login_kinds {
        rep.violate("status_and_login_never_mix", format!("observed {:?}", obs));
    }
}

fn brief(steps: &[Step]) -> String {
    let v: Vec<String> = steps
        .iter()
        .map(|s| match s {
            Step::Frame { id, body } => format!(
                "{id:#x}:{}",
                match body {
                    Body::Empty => "Empty".to_string(),
                    Body::Raw { bytes } => format!("Raw{}", bytes.len()),
                    Body::Handshake { next, .. } => format!("Handshake>{next}"),
                    Body::Ping { .. } => "Ping".into(),
                    Body::LoginStart { .. } => "LoginStart".into(),
                    Body::Cookie { payload, .. } => format!("Cookie{}", if payload.is_some() { "+" } else { "-" }),
                    Body::KeepAlive { .. } => "KeepAlive".into(),
                    Body::ClientInfo { .. } => "ClientInfo".into(),
                    Body::ResourcePack { result } => format!("ResourcePack{result}"),
                    Body::Pong { .. } => "Pong".into(),
                }
            ),
            Step::Enc { variant } => format!("Enc:{}", format!("{variant:?}").split([' ', '{']).next().unwrap_or("")),
            Step::RawBytes { bytes } => format!("RawBytes{}", bytes.len()),
            Step::WaitNs { ns } => format!("Wait{ns}"),
            Step::Close { reset } => format!("Close{}", if *reset { "!" } else { "" }),
        })
        .collect();
    format!("[{}]", v.join(", "))
}

impl Check for C06 {
    type Sc = ConnScenario;
    fn id(&self) -> &'static str {
        "C06"
    }
    fn level(&self) -> &'static str {
        "exploration"
    }
    fn rule_text(&self) -> String {
        "scripted serverbound sequences of up to 13 frames: the legal script for the intent (status; login; transfer with/without secret; optional ignorable configuration packets) with one deviation at a random point (close or reset, duplicate, skipped packet, unknown next-state 0/4/-1/255, dishonest Encryption Response, a packet with any id 0x00-0x07/0x10/0x7f and a body of another phase) followed by random extra packets and EOF; status answers None/minimal/full; with and without target. Compared with a reference automaton. Non-trivial = the script deviates from the legal one; distinct = distinct (script shape, observed kinds) hash.".into()
    }
    fn assumptions(&self) -> Vec<String> {
        vec![
            "unknown or unsupported packets inside the configuration phase, and bodies the model cannot classify under the expected id, are don't-care from that point on (only the prefix is compared)".into(),
            "services answer instantly, so keep-alives stay out of the comparison (C07 owns them)".into(),
        ]
    }
    fn components(&self) -> Value {
        json!({"real": ["Connection::listen", "match_packet!", "handshake/status/login/configuration codecs"], "stub": ["transport", "scripted client", "services (instant)"]})
    }
    fn count(&self, tier: Tier) -> u64 {
        match tier {
            Tier::Quick => 300_000,
            Tier::Thorough => 10_000_000,
        }
    }
    fn generate(&self, rng: &mut Rng, _index: u64, _tier: Tier) -> ConnScenario {
        generate(rng)
    }
    fn execute(&self, sc: &ConnScenario) -> RunReport {
        let mut slow_status = false;
        // every generated script ends with the client hanging up (a scripted client that stays and never echoes
        // is timed out after two keep-alive periods - C07's subject, not this automaton's)
        if !sc.client.script.as_ref().is_some_and(|st| matches!(st.last(), Some(Step::Close { .. }))) {
            return RunReport::default();
        }
        if !conn_domain_ok(sc) || sc.client.script.is_none() || !sc.client.mutations.is_empty() || !transport_is_zero_time(sc) {
            return RunReport::default();
        }
        // latencies must be zero in this check
        let s = &sc.services;
        if [s.auth.default.lat_ns, s.discovery.default.lat_ns, s.filter.default.lat_ns, s.strategy.default.lat_ns].iter().any(|l| *l != Some(0)) {
            return RunReport::default();
        }
        // (the status service may be slow if the client waits for its answers before it hangs up)
        match s.status.default.lat_ns {
            Some(0) => {}
            Some(lat) if lat <= secs(10) => {
                let steps = sc.client.script.as_deref().unwrap_or(&[]);
                let n = steps.len();
                let waits = n >= 2 && matches!(steps[n - 1], Step::Close { reset: false }) && matches!(steps[n - 2], Step::WaitNs { ns } if ns >= lat + ms(1)) && steps[..n - 2].iter().all(|x| matches!(x, Step::Frame { .. }));
                if !waits {
                    return RunReport::default();
                }
                slow_status = true;
            }
            _ => return RunReport::default(),
        }
        let out = crate::conn::run_conn_after_prelude(sc);
        let mut rep = base_report(&out);
        if !sc.prelude.is_empty() {
            *rep.faults.entry("earlier_connection_ended_abruptly".into()).or_insert(0) += 1;
        }
        let steps = sc.client.script.clone().unwrap_or_default();
        let mut h = crate::rng::Fnv(rep.trace_hash);
        h.write_str(&brief(&steps));
        rep.trace_hash = h.0;
        let m = model(sc);
        rep.nontrivial = m.st == St::End && steps.len() > 1;
        *rep.faults.entry("out_of_order_or_hostile_script".into()).or_insert(0) += 1;
        if slow_status {
            *rep.faults.entry("status_service_slow_while_ping_is_pipelined".into()).or_insert(0) += 1;
        }
        if steps.iter().any(|s| matches!(s, Step::Close { reset: true })) {
            *rep.faults.entry("client_reset".into()).or_insert(0) += 1;
        }
        check(sc, &out, &mut rep);
        rep
    }
}
