//! C16 - one stalled or hostile client never delays another.
//! Non-interference: compute is free in virtual time, so the timed trace of a well-behaved victim
//! in the presence of stalled / hostile clients must be identical to its trace when it is alone.

use super::c15::{v1_header, v2_header};
use super::common::*;
use crate::client::{ClientSpec, Cut, KaPolicy};
use crate::net::{NetCfg, NetClient, NetOutcome, NetScenario, run_net};
use crate::pipe::{Gate, WRule};
use crate::rng::Rng;
use crate::runner::{Check, RunReport, Tier};
use crate::services::{AuthRes, DiscRes, Script, Services, TargetSpec};
use serde::{Deserialize, Serialize};
use serde_json::{Value, json};
use std::net::SocketAddr;

pub struct C16;

#[derive(Clone, Debug, Serialize, Deserialize, PartialEq)]
pub struct C16Sc {
    /// the last client is the victim; all others are hostile
    pub net: NetScenario,
    pub hostile_kinds: Vec<String>,
}

/// The IPv4-mapped IPv6 form of an address (what a dual-stack load balancer announces for an IPv4 client).
fn mapped_form(a: &SocketAddr) -> SocketAddr {
    match a.ip() {
        std::net::IpAddr::V4(v4) => SocketAddr::new(std::net::IpAddr::V6(v4.to_ipv6_mapped()), a.port()),
        _ => *a,
    }
}

fn with_header(rng: &mut Rng, spec: &mut ClientSpec, proxy: Option<(bool, bool)>, src: &SocketAddr) {
    with_header_m(rng, spec, proxy, src, false)
}

fn with_header_m(rng: &mut Rng, spec: &mut ClientSpec, proxy: Option<(bool, bool)>, src: &SocketAddr, mapped: bool) {
    let Some((v1, v2)) = proxy else { return };
    let src = &if mapped { mapped_form(src) } else { *src };
    let dst: SocketAddr = if src.is_ipv4() { "192.0.2.200:25565".parse().unwrap() } else { "[2001:db8:ff::1]:25565".parse().unwrap() };
    let use_v1 = if v1 && v2 { rng.chance(1, 2) } else { v1 };
    spec.preamble = Some(if use_v1 { v1_header(src, &dst) } else { v2_header(src, &dst, false) });
}

fn generate(rng: &mut Rng) -> C16Sc {
    let proxy = match rng.below(4) {
        0 | 1 => None,
        2 => Some((true, true)),
        _ => Some((rng.chance(1, 2), true)),
    };
    let limiter = if rng.chance(1, 2) { Some((secs(8), 3usize)) } else { None };
    let timeout_s = *rng.pick(&[30u64, 120, 600]);
    // a dual-stack load balancer: every source is announced in its IPv4-mapped IPv6 form
    let mapped = proxy.is_some() && rng.chance(1, 5);
    // the authentication service may take a while (for everybody, the victim included)
    let auth_lat = *rng.pick(&[0u64, 0, 0, secs(2), secs(5)]);
    let nhmax = match rng.below(64) {
        1..=4 => 64,
        5..=16 => 20,
        _ => 5,
    };
    // rarely a really large crowd (beyond any round number somebody may have picked as a cap on open connections)
    let nh = if rng.chance(1, 160) { *rng.pick(&[260u64, 520, 1030, 2100]) } else { rng.range(1, nhmax) };
    // deployments behind a load balancer: every client (the victim too) arrives from the same one or two peers
    let lb_mode = proxy.is_some() && rng.chance(1, 2);
    // a crowd that misbehaves in the same way (rather than a mix)
    let same_kind = if rng.chance(1, 3) { Some(rng.below(12)) } else { None };
    // who the victim is (hostile clients may claim to be that player)
    let victim_name = "Victim".to_string();
    let victim_uuid = format!("{:032x}", (u128::from(rng.next_u64()) << 64) | u128::from(rng.next_u64()));
    // the listener has been up for a while when all this happens
    let uptime = *rng.pick(&[0u64, 0, 0, secs(6 * 3600 - 3), secs(86_400), secs(49 * 86_400 + 61_367)]);
    let mut clients = vec![];
    let mut kinds = vec![];
    // hostile clients may come from one or two addresses only, so that the limiter refuses some of them
    // (a refused client that keeps its socket open is one more way of misbehaving)
    let shared_ip = limiter.is_some() && rng.chance(1, 2);
    for i in 0..nh {
        let (a, b) = if shared_ip { (0, 1 + i % 2) } else { (i / 200, 1 + i % 200) };
        let peer: SocketAddr = if lb_mode { format!("10.88.0.{}:{}", 1 + i % 2, 21_000 + i).parse().unwrap() } else { format!("10.66.{a}.{b}:{}", 21_000 + i).parse().unwrap() };
        let src: SocketAddr = format!("198.18.{a}.{b}:{}", 31_000 + i).parse().unwrap();
        let intent = *rng.pick(&[1, 2, 2, 3]);
        let mut spec = ClientSpec::base(rng, intent);
        with_header_m(rng, &mut spec, proxy, &src, mapped);
        let plen = spec.preamble.as_ref().map(|p| p.len() as u64).unwrap_or(0);
        let mut wplan = vec![];
        let kind = match same_kind.unwrap_or_else(|| rng.below(12)) {
            0 if plen > 0 => {
                // nothing at all: stalls before the header
                spec.preamble = None;
                spec.mute_after = Some(0);
                "silent_before_header"
            }
            1 if plen > 1 => {
                // stalls inside the header
                let keep = rng.range(1, plen - 1) as usize;
                spec.preamble.as_mut().unwrap().truncate(keep);
                spec.mute_after = Some(0);
                "stalls_inside_header"
            }
            2 if plen > 1 => {
                // header trickles in slowly
                spec.cuts.push(Cut { at: rng.range(1, plen - 1), gate: Gate::Delay { ns: secs(rng.range(1, 20)) }, spurious: 0 });
                "slow_header"
            }
            3 => {
                spec.mute_after = Some(rng.range(0, 4) as usize);
                "stops_mid_protocol"
            }
            4 => {
                // mid-frame stall: the second frame never completes
                spec.cuts.push(Cut { at: plen + rng.range(1, 30), gate: Gate::Delay { ns: secs(3600) }, spurious: 0 });
                "stalls_mid_frame"
            }
            5 => {
                spec.ka_default = KaPolicy::Never;
                spec.send_info = false;
                "never_echoes"
            }
            6 => {
                // stops reading: at once, or in the middle of a later write
                if rng.chance(1, 2) {
                    for _ in 0..rng.below(6) {
                        wplan.push(WRule::Accept { max: 1_000_000 });
                    }
                    wplan.push(WRule::Accept { max: rng.range(1, 12) as usize });
                }
                wplan.push(WRule::Stall);
                "never_reads"
            }
            11 => {
                // answers the Encryption Request only just before its deadline: the deadline strikes while the
                // authentication service is still being asked
                spec.intent = 2;
                spec.login_think_ns = vec![0, secs(timeout_s) - ms(rng.range(200, 1500))];
                "answers_just_before_the_deadline"
            }
            10 => {
                // an honest-looking login that the authentication service turns down (never joined a session)
                spec.intent = 2;
                spec.name = format!("Hostile{i}");
                spec.close_on_end_ns = Some(0);
                "authentication_fails"
            }
            9 => {
                // speaks nonsense: a frame of length zero, an endless length prefix, random bytes - then stays
                let junk: Vec<u8> = match rng.below(4) {
                    0 => vec![0x00],
                    1 => vec![0xff; 5],
                    2 => vec![0x01, 0x7f, 0x00, 0x00],
                    _ => rng.bytes(40),
                };
                spec.script = Some(vec![crate::client::Step::RawBytes { bytes: junk }]);
                "speaks_nonsense"
            }
            8 => {
                // claims to be the victim (same name and UUID in Login Start) and then goes quiet
                spec.intent = 2;
                spec.name = victim_name.clone();
                spec.uuid = victim_uuid.clone();
                spec.mute_after = Some(rng.range(2, 4) as usize);
                "claims_victim_identity_then_stalls"
            }
            _ => {
                spec.mute_after = Some(0);
                "silent"
            }
        };
        spec.close_on_end_ns = None;
        spec.coalesce = rng.chance(1, 2);
        clients.push(NetClient { connect_at_ns: uptime + ms(rng.range(0, 5000)), peer: peer.to_string(), spec, wplan });
        kinds.push(kind.to_string());
    }
    // a listener that has been up for a while has served somebody long ago: an ordinary login at the very start
    if uptime > 0 {
        let i = nh;
        let peer: SocketAddr = if lb_mode { format!("10.88.0.2:{}", 21_000 + i).parse().unwrap() } else { format!("10.67.0.1:{}", 21_000 + i).parse().unwrap() };
        let src: SocketAddr = format!("198.19.0.1:{}", 31_000 + i).parse().unwrap();
        let mut spec = ClientSpec::base(rng, 2);
        with_header(rng, &mut spec, proxy, &src);
        spec.close_on_end_ns = Some(0);
        clients.push(NetClient { connect_at_ns: 0, peer: peer.to_string(), spec, wplan: vec![] });
        kinds.push("early_ordinary_login".to_string());
        // and, long ago, a wave of logins that ran into their deadlines while the authentication service was being asked
        if auth_lat > 0 && uptime > secs(timeout_s) + secs(60) && rng.chance(1, 2) {
            for k in 0..rng.range(17, 24) {
                let i = nh + 1 + k;
                let peer: SocketAddr = if lb_mode { format!("10.88.0.{}:{}", 1 + k % 2, 21_000 + i).parse().unwrap() } else { format!("10.68.0.{}:{}", 1 + k, 21_000 + i).parse().unwrap() };
                let src: SocketAddr = format!("198.20.0.{}:{}", 1 + k, 31_000 + i).parse().unwrap();
                let mut spec = ClientSpec::base(rng, 2);
                with_header_m(rng, &mut spec, proxy, &src, mapped);
                spec.login_think_ns = vec![0, secs(timeout_s) - ms(rng.range(200, 1500))];
                spec.close_on_end_ns = None;
                clients.push(NetClient { connect_at_ns: ms(100 + rng.range(0, 2000)), peer: peer.to_string(), spec, wplan: vec![] });
                kinds.push("answers_just_before_the_deadline".to_string());
            }
        }
    }
    // the victim: own IP, connects at a random instant, does a status exchange or a full login
    let vpeer: SocketAddr = if lb_mode { "10.88.0.1:45000".parse().unwrap() } else { "10.77.0.1:45000".parse().unwrap() };
    let vsrc: SocketAddr = "203.0.113.200:46000".parse().unwrap();
    let vint = if rng.chance(1, 3) { 2 } else { 1 };
    let mut vspec = ClientSpec::base(rng, vint);
    vspec.name = victim_name.clone();
    vspec.uuid = victim_uuid.clone();
    with_header_m(rng, &mut vspec, proxy, &vsrc, mapped);
    vspec.coalesce = rng.chance(1, 2);
    clients.push(NetClient { connect_at_ns: uptime + ms(rng.range(0, 8000)), peer: vpeer.to_string(), spec: vspec, wplan: vec![] });
    clients.sort_by_key(|c| c.connect_at_ns);
    // keep the victim last in the list for the oracle (stable: move it)
    let vi = clients.iter().position(|c| c.peer == vpeer.to_string()).unwrap();
    let v = clients.remove(vi);
    // hostile kinds must follow the same permutation
    let mut order: Vec<(u64, String)> = vec![];
    {
        // rebuild kinds in the new order by peer port
        for c in &clients {
            let port: u64 = c.peer.rsplit(':').next().unwrap().parse().unwrap();
            order.push((port - 21_000, kinds[(port - 21_000) as usize].clone()));
        }
    }
    let kinds: Vec<String> = order.into_iter().map(|x| x.1).collect();
    clients.push(v);
    let services = Services {
        auth: Script::always(Some(auth_lat), AuthRes::ErrorIfName { prefix: "Hostile".into() }),
        discovery: Script::always(Some(*rng.pick(&[0u64, 0, secs(2), secs(20)])), DiscRes::Targets(vec![TargetSpec { id: "t0".into(), addr: "10.9.8.7:25565".into(), meta: Default::default() }])),
        ..Default::default()
    };
    C16Sc {
        net: NetScenario {
            seed: rng.next_u64(),
            cfg: NetCfg { secret: None, expiry: None, max_frame: None, timeout_ns: secs(timeout_s), proxy, limiter, use_start: false, agones: false, secret_source: None, localization_from_services: false },
            wall: Default::default(),
            services,
            clients,
            stop_at_ns: None,
            stop_before: false,
            yields_before_stop: 0,
            relisten: false,
            cap_ns: uptime + secs(700),
        },
        hostile_kinds: kinds,
    }
}

fn timed_trace(out: &NetOutcome, idx: usize) -> Vec<Value> {
    let c = &out.clients[idx];
    let mut v: Vec<Value> = c.view.packets.iter().map(|p| json!({"t": p.t_ns, "kind": p.kind, "len": p.len})).collect();
    v.push(json!({"eof": c.view.eof_ns, "accepted": c.accepted_ns, "closed": c.closed_ns}));
    v
}

pub fn check(sc: &C16Sc, out: &NetOutcome, solo: &NetOutcome, rep: &mut RunReport) {
    for o in [out, solo] {
        if !o.panics.is_empty() {
            rep.violate("no_panic", format!("panicked: {}", o.panics[0].replace('\n', " ")));
            return;
        }
    }
    let vi = sc.net.clients.len() - 1;
    let sv = &solo.clients[0];
    // the victim alone must be fully served (otherwise the scenario is not a well-behaved victim)
    let want_last = if sc.net.clients[vi].spec.intent == 1 { "Pong" } else { "Transfer" };
    if sv.view.packets.last().map(|p| p.kind.as_str()) != Some(want_last) {
        rep.violate("victim_alone_is_served", format!("even alone the victim got {:?}", sv.view.kinds()));
        return;
    }
    let (a, b) = (timed_trace(out, vi), timed_trace(solo, 0));
    if a != b {
        let at = a.iter().zip(b.iter()).position(|(x, y)| x != y).unwrap_or(a.len().min(b.len()));
        rep.violate(
            "victim_trace_unaffected",
            format!(
                "with {} other client(s) {:?} (PROXY {:?}, limiter {:?}) the victim's timed trace differs at #{at}: {} vs alone {}",
                vi,
                sc.hostile_kinds,
                sc.net.cfg.proxy,
                sc.net.cfg.limiter.is_some(),
                a.get(at).cloned().unwrap_or(Value::Null),
                b.get(at).cloned().unwrap_or(Value::Null)
            ),
        );
    }
}

impl Check for C16 {
    type Sc = C16Sc;
    fn id(&self) -> &'static str {
        "C16"
    }
    fn level(&self) -> &'static str {
        "exploration"
    }
    fn rule_text(&self) -> String {
        "1-64 hostile clients - one run in 160 a crowd of 260 / 520 / 1030 / 2100 - (silent before the PROXY header, stalled inside it, header trickling in over up to 20 s, stopping after n frames, stalled mid-frame, never echoing keep-alives, never reading, silent) connecting within 5 s, plus one well-behaved victim with its own IP connecting within 8 s for a status exchange or a full login; PROXY off / v1+v2 / v2, limiter on or off, routing latency up to 20 s, timeout 30-600 s. Every scenario is run twice: with everybody and with the victim alone. Non-trivial = at least one hostile client connected before the victim finished; distinct = distinct (event-order trace, hostile kinds) hash.".into()
    }
    fn assumptions(&self) -> Vec<String> {
        vec!["compute costs no virtual time, so any difference in the victim's timestamps is waiting caused by another connection".into()]
    }
    fn components(&self) -> Value {
        json!({"real": ["Listener::listen accept loop / handle", "proxy-header parser", "RateLimiter", "Connection", "tokio TaskTracker / timeout"], "stub": ["network (hook H1)", "hostile and victim clients", "services"]})
    }
    fn count(&self, tier: Tier) -> u64 {
        match tier {
            Tier::Quick => 60_000,
            Tier::Thorough => 2_000_000,
        }
    }
    fn generate(&self, rng: &mut Rng, _index: u64, _tier: Tier) -> C16Sc {
        generate(rng)
    }
    fn execute(&self, sc: &C16Sc) -> RunReport {
        if !net_domain_ok(&sc.net) {
            return RunReport::default();
        }
        let n = sc.net.clients.len();
        // the limiter as generated lets at least one connection per address through
        if sc.net.cfg.limiter.is_some_and(|(_, size)| size == 0) {
            return RunReport::default();
        }
        if n == 0 || sc.net.cfg.use_start || sc.net.stop_at_ns.is_some() || sc.net.cap_ns < sc.net.clients[n - 1].connect_at_ns + secs(60) || sc.net.cfg.timeout_ns < secs(30) {
            return RunReport::default();
        }
        let v = &sc.net.clients[n - 1];
        // the victim must be well behaved and have its own effective IP
        if !v.spec.cuts.is_empty() || !v.wplan.is_empty() || v.spec.mute_after.is_some() || v.spec.script.is_some() || !v.spec.mutations.is_empty() || !matches!(v.spec.intent, 1 | 2) || !matches!(v.spec.enc, crate::client::EncVariant::Honest) || v.spec.ka_default != KaPolicy::Prompt || !v.spec.send_info || v.spec.close_after.is_some() || !v.spec.login_think_ns.is_empty() || v.spec.name != "Victim" {
            return RunReport::default();
        }
        if v.spec.preamble.is_some() != sc.net.cfg.proxy.is_some() {
            return RunReport::default();
        }
        // the services as generated: something to route to, an authentication service that only turns down "Hostile..." names
        {
            let s = &sc.net.services;
            let routable = matches!(&s.discovery.default.res, crate::services::DiscRes::Targets(t) if !t.is_empty()) && s.discovery.calls.is_empty() && s.discovery.default.lat_ns.is_some();
            let auth_ok = matches!(&s.auth.default.res, AuthRes::ErrorIfName { prefix } if prefix == "Hostile") && s.auth.calls.is_empty() && s.auth.default.lat_ns.is_some_and(|l| l <= secs(5));
            if !routable || !auth_ok || v.spec.name.starts_with("Hostile") || v.spec.protocol <= 0 || v.spec.shared_secret.len() != 16 {
                return RunReport::default();
            }
        }
        // without PROXY protocol the victim needs a peer address of its own (with it, the announced source counts)
        if sc.net.cfg.proxy.is_none() && sc.net.clients[..n - 1].iter().any(|c| c.peer.split(':').next() == v.peer.split(':').next()) {
            return RunReport::default();
        }
        if let Some(p) = &v.spec.preamble {
            // the header must be one of the two the writer produces for the victim's announced source
            let vsrc: SocketAddr = "203.0.113.200:46000".parse().unwrap();
            let dst: SocketAddr = "192.0.2.200:25565".parse().unwrap();
            let (v1, v2) = sc.net.cfg.proxy.unwrap();
            let (msrc, mdst): (SocketAddr, SocketAddr) = (mapped_form(&vsrc), "[2001:db8:ff::1]:25565".parse().unwrap());
            let ok = (v1 && (*p == v1_header(&vsrc, &dst) || *p == v1_header(&msrc, &mdst))) || (v2 && (*p == v2_header(&vsrc, &dst, false) || *p == v2_header(&msrc, &mdst, false)));
            if !ok {
                return RunReport::default();
            }
            // no hostile client may announce the victim's source IP
            for c in &sc.net.clients[..n - 1] {
                if let Some(hp) = &c.spec.preamble
                    && String::from_utf8_lossy(hp).contains("203.0.113.200")
                {
                    return RunReport::default();
                }
            }
        }
        let out = run_net(&sc.net);
        let mut solo_sc = sc.net.clone();
        solo_sc.clients = vec![v.clone()];
        let solo = run_net(&solo_sc);
        let mut rep = RunReport {
            runs: 2,
            trace_hash: out.trace_hash(),
            full_hash: out.full_hash().rotate_left(9) ^ solo.full_hash(),
            sim_ns: out.end_ns + solo.end_ns,
            ..Default::default()
        };
        rep.merge_counts(&out.faults, &out.probes);
        let mut h = crate::rng::Fnv(rep.trace_hash);
        for k in &sc.hostile_kinds {
            h.write_str(k);
            *rep.faults.entry(format!("hostile_{k}")).or_insert(0) += 1;
        }
        rep.trace_hash = h.0;
        let refused = out.clients[..n - 1].iter().filter(|c| c.accepted_ns.is_some() && c.rx_total == 0 && c.closed_ns.is_some()).count() as u64;
        if refused > 0 && sc.net.cfg.limiter.is_some() {
            *rep.probes.entry("hostile_connection_closed_unserved".into()).or_insert(0) += refused;
        }
        let vdone = solo.clients[0].view.eof_ns.unwrap_or(u64::MAX);
        rep.nontrivial = sc.net.clients[..n - 1].iter().any(|c| c.connect_at_ns <= vdone);
        check(sc, &out, &solo, &mut rep);
        rep
    }
    fn neutralise(&self, sc: &C16Sc, trigger: &str) -> Option<C16Sc> {
        if trigger != "proxy_header_stalled_in_accept_loop" || sc.net.cfg.proxy.is_none() {
            return None;
        }
        // complete every hostile client's header at once: remove header stalls, keep everything else
        let mut n = sc.clone();
        let last = n.net.clients.len() - 1;
        let mut changed = false;
        for (i, c) in n.net.clients.iter_mut().enumerate() {
            if i == last {
                continue;
            }
            let src: SocketAddr = format!("198.18.0.{}:{}", 1 + i % 200, 31_000 + i).parse().unwrap();
            let dst: SocketAddr = "192.0.2.200:25565".parse().unwrap();
            let full = v2_header(&src, &dst, false);
            let full = if n.net.cfg.proxy == Some((true, false)) { v1_header(&src, &dst) } else { full };
            if c.spec.preamble.as_ref() != Some(&full) {
                c.spec.preamble = Some(full.clone());
                changed = true;
            }
            let plen = full.len() as u64;
            let before = c.spec.cuts.len();
            c.spec.cuts.retain(|cut| cut.at >= plen);
            if c.spec.cuts.len() != before {
                changed = true;
            }
        }
        if changed { Some(n) } else { None }
    }
}
