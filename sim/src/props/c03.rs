//! C03 - the player is transferred to exactly the target the strategy chose.

use super::common::*;
use crate::client::ClientSpec;
use crate::conn::{ConnCfg, ConnOutcome, ConnScenario, Wall, run_conn};
use crate::rng::Rng;
use crate::runner::{Check, RunReport, Tier};
use crate::services::{DiscRes, FiltRes, LocSpec, Script, Services, StratRes, TargetSpec};
use serde_json::{Value, json};
use std::collections::BTreeMap;
use std::net::{IpAddr, SocketAddr};

pub struct C03;

fn chain(locale: &str) -> Vec<String> {
    let mut v = vec![locale.to_string()];
    let idx: Vec<usize> = locale.match_indices('_').map(|x| x.0).collect();
    for i in idx.iter().rev() {
        v.push(locale[..*i].to_string());
    }
    v
}

/// "region -> language -> default locale", written from the property text. `None` = don't care
/// (no table applies at all, or the table that applies lacks the key).
pub fn ref_localize(spec: &LocSpec, locale: Option<&str>, key: &str) -> Option<String> {
    let mut cands = chain(locale.unwrap_or(&spec.default_locale));
    cands.extend(chain(&spec.default_locale));
    for c in cands {
        if let Some(tbl) = spec.messages.get(&c) {
            return tbl.get(key).cloned();
        }
    }
    None
}

pub fn text_matches(decoded: &Value, message: &str) -> bool {
    if message.starts_with('{') {
        match serde_json::from_str::<Value>(message) {
            Ok(v) => &v == decoded,
            Err(_) => true, // malformed configured message: don't care
        }
    } else {
        decoded == &Value::String(message.to_string())
    }
}

pub fn gen_loc(rng: &mut Rng) -> LocSpec {
    let keys = ["de_DE", "de", "en_US", "en", "fr", "a_b", "a", "es_MX", "de_DE_u_co", "zh_Hant"];
    let mut messages = BTreeMap::new();
    for k in keys {
        if rng.chance(1, 2) {
            let mut t = BTreeMap::new();
            let plain = rng.chance(1, 3);
            // messages are rarely ASCII only
            let mut deco = (*rng.pick(&["", "", " – später nochmal", " 服务器不可用", " ✔"])).to_string();
            // a long message (rules, links, ASCII art): the Disconnect frame then needs a three-byte length prefix
            if rng.chance(1, 10) {
                deco.push_str(&" read the rules".repeat(*rng.pick(&[1093usize, 1400, 2200])));
            }
            // plain texts that begin like something else (a network tag in brackets, a quote, a number, a formatting code)
            let lead = if plain { *rng.pick(&["", "", "", "[Passage] ", "[", "[]", "\"q\" ", "123 ", "null", " {", "\u{a7}c", "]", "<b>"]) } else { "" };
            for mk in ["disconnect_no_target", "disconnect_timeout"] {
                if rng.chance(9, 10) {
                    t.insert(
                        mk.to_string(),
                        if plain { format!("{lead}{mk} in {k}{deco}") } else { format!("{{\"text\":\"{mk} in {k}{deco}\"}}") },
                    );
                }
            }
            messages.insert(k.to_string(), t);
        }
    }
    LocSpec {
        default_locale: (*rng.pick(&["en_US", "en", "de_DE", "fr_FR", "zz"])).to_string(),
        messages,
        timeout_lat_ns: 0,
    }
}

pub fn gen_locale(rng: &mut Rng) -> String {
    // one in six: some locale out of thousands (whatever is counted or remembered per locale sees many of them)
    if rng.chance(1, 6) {
        let l = |rng: &mut Rng| (b'a' + rng.below(26) as u8) as char;
        return format!("{}{}_{}{}", l(rng), l(rng), l(rng).to_ascii_uppercase(), l(rng).to_ascii_uppercase());
    }
    // one in six: names that merely begin like a configured table, empty elements
    if rng.chance(1, 5) {
        return (*rng.pick(&["fil_PH", "dea_XX", "enx", "frr_FR", "ab_c", "_US", "_", "de_", "__", "a", "es_MX_", "日本_JP", "abcdefghijklmno\u{e9}xyz", "日本語日本語日本"])).to_string();
    }
    (*rng.pick(&["de_DE", "de", "en_US", "en", "fr_FR", "fr", "xx_YY", "", "a_b_c", "es_MX", "de_AT", "EN_us", "de_DE_u_co_phonebk", "zh_Hant_TW", "de_DE_u_co"])).to_string()
}

fn generate(rng: &mut Rng) -> ConnScenario {
    let n = *rng.pick(&[0usize, 1, 2, 3, 5, 8]);
    let mut targets: Vec<TargetSpec> = (0..n).map(|i| gen_target(rng, i)).collect();
    if n >= 2 && rng.chance(1, 4) {
        let d = targets[0].clone();
        targets.push(d); // exact duplicate
    }
    if n >= 2 && rng.chance(1, 4) {
        targets[1].id = targets[0].id.clone(); // same id, other address
    }
    let lat = |rng: &mut Rng| *rng.pick(&[0u64, 0, 0, ms(1), secs(3), secs(17), secs(40)]);
    let disc = if rng.chance(1, 12) { DiscRes::Error } else { DiscRes::Targets(targets.clone()) };
    let filt = match rng.below(8) {
        0 => FiltRes::Error,
        1 => FiltRes::Indices(vec![]),
        2 => {
            let mut ix: Vec<usize> = (0..targets.len()).collect();
            rng.shuffle(&mut ix);
            FiltRes::Indices(ix)
        }
        3 => FiltRes::Indices((0..targets.len()).filter(|_| rng.chance(1, 2)).collect()),
        4 => FiltRes::Targets(vec![gen_target(rng, 90), gen_target(rng, 91)]),
        _ => FiltRes::Identity,
    };
    let strat = match rng.below(8) {
        0 => StratRes::Error,
        1 => StratRes::None,
        2 => StratRes::Target(gen_target(rng, 99)),
        3 => StratRes::Index(rng.below(9) as usize),
        4 => StratRes::Index(1),
        _ => StratRes::First,
    };
    let mut services = Services {
        discovery: Script::always(Some(lat(rng)), disc),
        filter: Script::always(Some(lat(rng)), filt),
        strategy: Script::always(Some(lat(rng)), strat),
        localization: gen_loc(rng),
        ..Default::default()
    };
    // a chain of two filters (the second is offered whatever the first returned, also an empty list, and may add targets)
    if rng.chance(1, 4) {
        let f2 = match rng.below(6) {
            0 => FiltRes::Error,
            1 => FiltRes::Indices(vec![]),
            2 => FiltRes::Indices((0..targets.len()).rev().filter(|_| rng.chance(2, 3)).collect()),
            3 | 4 => FiltRes::Targets(vec![gen_target(rng, 92)]),
            _ => FiltRes::Identity,
        };
        services.filter2 = Some(Script::always(Some(lat(rng)), f2));
    }
    // a back-end whose first call fails although a second one would succeed: failing is failing
    if rng.chance(1, 10) {
        use crate::services::Call;
        match rng.below(3) {
            0 => services.discovery.calls = vec![Call { lat_ns: Some(lat(rng)), res: DiscRes::Error }],
            1 => services.filter.calls = vec![Call { lat_ns: Some(lat(rng)), res: FiltRes::Error }],
            _ => services.strategy.calls = vec![Call { lat_ns: Some(lat(rng)), res: StratRes::Error }],
        }
    }
    let intent = if rng.chance(1, 2) { 2 } else { 3 };
    let mut client = ClientSpec::base(rng, intent);
    client.locale = gen_locale(rng);
    client.info_delay_ns = *rng.pick(&[0u64, 0, ms(50), secs(20)]);
    client.info = gen_info(rng);
    // most clients hang up as soon as they have been told where to go; some take their time or wait for the server
    client.close_on_end_ns = *rng.pick(&[Some(0u64), Some(0), Some(0), Some(ms(500)), Some(secs(3)), Some(secs(20)), None]);
    let mut sc = ConnScenario {
        seed: rng.next_u64(),
        cfg: ConnCfg {
            secret: if rng.chance(1, 2) { Some(rng.bytes(16)) } else { None },
            expiry: None,
            max_frame: None,
            client_addr: gen_addr(rng),
        },
        wall: Wall::default(),
        services,
        client,
        wplan: vec![],
        cap_ns: secs(900),
        prelude: vec![],
        growth: None,
    };
    // a returning player: the genuine cookie names the target of the earlier visit (one of today's candidates, or one that is gone)
    if let (3, Some(sec)) = (sc.client.intent, &sc.cfg.secret)
        && rng.chance(1, 2)
    {
        let id = Identity { name: "Returning".into(), uuid: 0x3e70, props: vec![] };
        let earlier = if !targets.is_empty() && rng.chance(3, 4) { targets[rng.usize_below(targets.len())].id.clone() } else { "gone-since".to_string() };
        sc.client.auth_cookie = Some(signed_cookie(sec, &cookie_json(sc.wall.base_s - 10, &sc.cfg.client_addr, &id, Some(&earlier))));
    }
    zero_time_noise(rng, &mut sc);
    // back-pressure while routing: one Keep Alive is held back by the transport across the completion of a back-end call
    if rng.chance(1, 4) {
        let mut plain = sc.clone();
        plain.wplan.clear();
        let refo = run_conn(&plain);
        let mut held = sc.clone();
        if aim_hold_at_keep_alive(rng, &mut held, &refo) {
            sc = held;
        }
    }
    // an earlier connection of the same process ended abruptly with output still queued
    if rng.chance(1, 10) {
        let mut base = sc.clone();
        base.wplan.clear();
        sc.prelude = vec![abrupt_prelude(rng, &base)];
    }
    sc
}

pub fn check(sc: &ConnScenario, out: &ConnOutcome, rep: &mut RunReport) {
    if !out.panics.is_empty() {
        rep.violate("no_panic", format!("handler panicked: {}", out.panics[0]));
        return;
    }
    if let Some(u) = &out.view.undecodable {
        rep.violate("stream_decodes", u.clone());
        return;
    }
    let disc_done = out.events("svc:discovery", "done").next().map(|e| e.detail["result"].clone());
    let filt_call = out.events("svc:filter", "call").next().map(|e| e.detail["targets"].clone());
    let filt_done = out.events("svc:filter", "done").next().map(|e| e.detail["result"].clone());
    let strat_call = out.events("svc:strategy", "call").next().map(|e| e.detail["targets"].clone());
    let strat_done = out.events("svc:strategy", "done").next().map(|e| e.detail["result"].clone());
    if let (Some(d), Some(f)) = (&disc_done, &filt_call)
        && d != f
    {
        rep.violate("filter_gets_discovery_output", format!("discovery returned {d} but the filter was offered {f}"));
    }
    // with a second filter: it is offered what the first returned, and "what the filters returned" is its answer
    let (filt_done, filt_call2) = if sc.services.filter2.is_some() {
        let c2 = out.events("svc:filter2", "call").next().map(|e| e.detail["targets"].clone());
        let d2 = out.events("svc:filter2", "done").next().map(|e| e.detail["result"].clone());
        if let (Some(d), Some(f)) = (&filt_done, &c2)
            && d != f
        {
            rep.violate("filter_gets_discovery_output", format!("the first filter returned {d} but the second was offered {f}"));
        }
        if filt_done.as_ref().is_some_and(|d| d != &json!("error")) && c2.is_none() && strat_call.is_some() {
            rep.violate("strategy_gets_filter_output", format!("the first filter returned {} and the second filter was never asked, yet the strategy was offered {}", filt_done.clone().unwrap(), strat_call.clone().unwrap()));
        }
        if filt_done == Some(json!("error")) && c2.is_some() {
            rep.violate("pipeline_stops_on_error", "the second filter was consulted after the first one failed".into());
        }
        (if filt_done == Some(json!("error")) { filt_done } else { d2 }, c2)
    } else {
        (filt_done, None)
    };
    let _ = filt_call2;
    if let (Some(d), Some(f)) = (&filt_done, &strat_call)
        && d != f
    {
        rep.violate("strategy_gets_filter_output", format!("filters returned {d} but the strategy was offered {f}"));
    }
    let err = |v: &Option<Value>| v.as_ref() == Some(&json!("error"));
    let any_error = err(&disc_done) || err(&filt_done) || err(&strat_done);
    if err(&disc_done) && filt_call.is_some() || err(&filt_done) && strat_call.is_some() {
        rep.violate("pipeline_stops_on_error", "a later stage was consulted after an earlier one failed".into());
    }
    let transfers = out.view.all("Transfer");
    let disconnects = out.view.all("Disconnect");
    let kinds = out.view.kinds();
    if any_error {
        if !transfers.is_empty() {
            rep.violate("no_transfer_on_error", format!("a service failed but packets {:?}", kinds));
        }
        if out.result == "Ok" {
            rep.violate("error_ends_connection", "a service failed but listen() returned Ok".into());
        }
        return;
    }
    let Some(chosen) = strat_done else {
        rep.violate("routing_completes", format!("selection never completed: result {} {} packets {:?}", out.result, out.result_text, kinds));
        return;
    };
    // everything after Login Success must be Keep Alive / Store Cookie and then the single final packet
    if let Some(pos) = kinds.iter().position(|k| *k == "LoginSuccess") {
        let tail = &kinds[pos + 1..];
        for (i, k) in tail.iter().enumerate() {
            let last = i + 1 == tail.len();
            let ok = match *k {
                "KeepAlive" | "StoreCookie" => !last,
                "Transfer" | "Disconnect" => last,
                _ => false,
            };
            if !ok {
                rep.violate("final_packet_is_last", format!("packet order after Login Success: {:?}", tail));
                break;
            }
        }
    }
    let decoded_bytes: usize = out.view.packets.iter().map(|p| p.len + crate::codec::varint(p.len as i32).len()).sum();
    if out.view.rx_total as usize != decoded_bytes || out.view.partial_at_eof != 0 {
        rep.violate("nothing_after_final_packet", format!("{} bytes received, {} decoded", out.view.rx_total, decoded_bytes));
    }
    if chosen.is_null() {
        if !transfers.is_empty() {
            rep.violate("no_transfer_without_target", format!("no target chosen but packets {:?}", kinds));
        }
        if disconnects.len() != 1 {
            rep.violate("one_disconnect_without_target", format!("no target chosen, packets {:?}", kinds));
            return;
        }
        if out.result != "NoTargetFound" {
            rep.violate("no_target_result", format!("listen() returned {}", out.result));
        }
        if let Some(want) = ref_localize(&sc.services.localization, Some(&sc.client.locale), "disconnect_no_target")
            && !text_matches(&disconnects[0].fields["reason"], &want)
        {
            rep.violate(
                "disconnect_text_localized",
                format!("client locale {:?}: Disconnect says {} but the configured message is {:?} (default locale {:?}, tables {:?})", sc.client.locale, disconnects[0].fields["reason"], want, sc.services.localization.default_locale, sc.services.localization.messages.keys().collect::<Vec<_>>()),
            );
        }
        return;
    }
    // a target was chosen
    if transfers.len() != 1 || !disconnects.is_empty() {
        rep.violate("exactly_one_transfer", format!("target {chosen} chosen, packets {:?}, result {} {}", kinds, out.result, out.result_text));
        return;
    }
    let addr: SocketAddr = chosen["addr"].as_str().unwrap_or("").parse().expect("target addr");
    let host = transfers[0].fields["host"].as_str().unwrap_or("");
    let port = transfers[0].fields["port"].as_i64().unwrap_or(-1);
    let host_ip: Option<IpAddr> = host.parse().ok();
    if host_ip != Some(addr.ip()) || port != i64::from(addr.port()) {
        rep.violate("transfer_names_chosen_target", format!("strategy chose {addr} but Transfer says {host} : {port}"));
    }
    if out.result != "Ok" {
        rep.violate("transfer_result", format!("Transfer sent but listen() returned {} {}", out.result, out.result_text));
    }
}

fn gen_app(rng: &mut Rng) -> crate::net::NetScenario {
    use crate::net::{NetCfg, NetClient, NetScenario};
    let services = Services { discovery: Script::always(Some(0), DiscRes::Targets(vec![])), localization: gen_loc(rng), ..Default::default() };
    let n = rng.range(1, 4);
    let clients = (0..n)
        .map(|i| {
            let intent = if rng.chance(1, 2) { 2 } else { 3 };
            let mut spec = ClientSpec::base(rng, intent);
            spec.locale = gen_locale(rng);
            spec.close_on_end_ns = Some(0);
            spec.coalesce = rng.chance(1, 2);
            NetClient { connect_at_ns: ms(rng.range(0, 1500)), peer: format!("192.0.2.{}:{}", 60 + i, 43_000 + i), spec, wplan: vec![] }
        })
        .collect();
    NetScenario {
        seed: rng.next_u64(),
        cfg: NetCfg { timeout_ns: secs(60), use_start: true, localization_from_services: true, ..Default::default() },
        wall: Default::default(),
        services,
        clients,
        stop_at_ns: None,
        stop_before: false,
        yields_before_stop: 0,
        relisten: false,
        cap_ns: secs(90),
    }
}

/// Application mode: every player is refused for lack of a target, in the words the configuration holds for its locale.
fn run_app(n: &crate::net::NetScenario) -> RunReport {
    let c = &n.cfg;
    if !net_domain_ok(n) || !c.use_start || !c.localization_from_services || c.agones || c.proxy.is_some() || c.limiter.is_some() || c.secret.is_some() || n.stop_at_ns.is_some() || c.timeout_ns < secs(30) || n.cap_ns < secs(60)
        || !matches!(&n.services.discovery.default.res, DiscRes::Targets(t) if t.is_empty())
        || n.clients.is_empty()
        || n.clients.iter().any(|k| !matches!(k.spec.intent, 2 | 3) || k.spec.script.is_some() || !k.spec.mutations.is_empty() || !k.spec.cuts.is_empty() || !k.wplan.is_empty() || !k.spec.send_info || k.spec.mute_after.is_some() || k.spec.close_after.is_some() || k.spec.preamble.is_some() || !matches!(k.spec.enc, crate::client::EncVariant::Honest) || k.spec.shared_secret.len() != 16 || k.spec.auth_cookie.is_some())
    {
        return RunReport::default();
    }
    let out = crate::net::run_net(n);
    let mut rep = RunReport { runs: 1, trace_hash: out.trace_hash(), full_hash: out.full_hash(), sim_ns: out.end_ns, nontrivial: true, ..Default::default() };
    rep.merge_counts(&out.faults, &out.probes);
    *rep.faults.entry("localization_through_the_application_configuration".into()).or_insert(0) += 1;
    if !out.panics.is_empty() {
        rep.violate("no_panic", format!("panicked: {}", out.panics[0].replace('\n', " ")));
        return rep;
    }
    for (i, (k, spec)) in out.clients.iter().zip(n.clients.iter()).enumerate() {
        if let Some(u) = &k.view.undecodable {
            rep.violate("stream_decodes", format!("client {i}: {u}"));
            continue;
        }
        if k.view.first("Transfer").is_some() {
            rep.violate("no_transfer_without_target", format!("client {i}: nothing to route to, but packets {:?}", k.view.kinds()));
        }
        let ds = k.view.all("Disconnect");
        if ds.len() != 1 {
            rep.violate("one_disconnect_without_target", format!("client {i} (locale {:?}): packets {:?}", spec.spec.locale, k.view.kinds()));
            continue;
        }
        if let Some(want) = ref_localize(&n.services.localization, Some(&spec.spec.locale), "disconnect_no_target")
            && !text_matches(&ds[0].fields["reason"], &want)
        {
            rep.violate(
                "disconnect_text_localized",
                format!("client locale {:?}: Disconnect says {} but the configured message is {:?} (default locale {:?}, configured tables {:?})", spec.spec.locale, ds[0].fields["reason"], want, n.services.localization.default_locale, n.services.localization.messages.keys().collect::<Vec<_>>()),
            );
        }
    }
    rep
}

/// A single connection over the simulated pipe, or several players through one real `Listener`.
#[derive(Clone, Debug, serde::Serialize, serde::Deserialize, PartialEq)]
pub enum C03Sc {
    Conn(Box<ConnScenario>),
    Listener(Box<crate::net::NetScenario>),
    /// the application entry point with the localization tables in its configuration and nothing to route to
    App(Box<crate::net::NetScenario>),
}

impl Check for C03 {
    type Sc = C03Sc;
    fn id(&self) -> &'static str {
        "C03"
    }
    fn level(&self) -> &'static str {
        "exploration"
    }
    fn rule_text(&self) -> String {
        "7 of 8 evaluations - random routing scenarios: 0-9 discovered targets (IPv4/IPv6, any port, exact duplicates, same id with another address, metadata), filter outcome (identity, subset, shuffle, empty, foreign list, error), strategy outcome (first, index in or out of range, unlisted target, none, error), service latencies up to 40 s (so keep-alives interleave), 12 client locale strings against random localisation tables (8 possible locale keys, plain and compound messages, missing keys). 1 of 8 evaluations - listener mode: 2-14 players log in through one real Listener within a second or two (some at the same instant, PROXY protocol on or off, half of the returning ones with a genuine cookie), every discovery call returns a list of its own and the strategy picks by player; each connection's filters must be offered the answer of a discovery call nobody else got, its strategy the output of its filters, its Transfer and issued cookie the target chosen for this player. Non-trivial = the run reached the selection stage or a service failed; distinct = distinct event-order trace hash.".into()
    }
    fn assumptions(&self) -> Vec<String> {
        vec![
            "localisation tables whose applicable locale lacks the key, or where no table applies, are don't-care".into(),
            "the NBT text component is compared as a value (string-valued compounds and plain strings only)".into(),
        ]
    }
    fn components(&self) -> Value {
        json!({"real": ["Connection::listen", "Listener::listen / handle (listener mode)", "FixedLocalizationAdapter (behind a recorder)", "OptionFilterAdapter and the Vec<T> filter chain of passage-adapters (around one or two scripted filters)", "configuration packets codec (Transfer, Disconnect, Store Cookie)"], "stub": ["transport", "client", "discovery/filter/strategy/auth services"]})
    }
    fn count(&self, tier: Tier) -> u64 {
        match tier {
            Tier::Quick => 150_000,
            Tier::Thorough => 5_000_000,
        }
    }
    fn generate(&self, rng: &mut Rng, index: u64, _tier: Tier) -> C03Sc {
        if index % 16 == 6 {
            return C03Sc::App(Box::new(gen_app(rng)));
        }
        if index % 8 == 7 { C03Sc::Listener(Box::new(super::swarm::generate(rng))) } else { C03Sc::Conn(Box::new(generate(rng))) }
    }
    fn execute(&self, sc: &C03Sc) -> RunReport {
        let sc: &ConnScenario = match sc {
            C03Sc::Conn(c) => c,
            C03Sc::Listener(n) => return super::swarm::execute(n, false, true),
            C03Sc::App(n) => return run_app(n),
        };
        if !conn_domain_ok(sc) || !matches!(sc.client.intent, 2 | 3) || sc.client.script.is_some() || !sc.client.mutations.is_empty() || !matches!(sc.client.enc, crate::client::EncVariant::Honest) || !sc.client.send_info {
            return RunReport::default();
        }
        let held = !transport_is_zero_time(sc);
        if held {
            // a bounded hold on the server's writes; every gate event must be one that happens
            use crate::pipe::{Gate, WRule};
            if !sc.client.cuts.iter().all(|c| matches!(c.gate, Gate::Now)) || !wplan_is_bounded_hold(sc) || !matches!(sc.client.ka_default, crate::client::KaPolicy::Prompt) || !sc.client.ka.is_empty() {
                return RunReport::default();
            }
            let s = &sc.services;
            for w in &sc.wplan {
                if let WRule::PendEvent { name, .. } = w {
                    let lat = match name.as_str() {
                        "discovery_done" => s.discovery.default.lat_ns,
                        "filter_done" => s.filter.default.lat_ns,
                        "strategy_done" => s.strategy.default.lat_ns,
                        _ => None,
                    };
                    if lat.is_none() {
                        return RunReport::default();
                    }
                }
            }
        }
        let out = crate::conn::run_conn_after_prelude(sc);
        if held && sc.wplan.iter().any(|w| matches!(w, crate::pipe::WRule::PendEvent { name, .. } if !out.signals.contains_key(name))) {
            return RunReport::default(); // the hold waits for a call that was never made (an earlier stage failed)
        }
        let mut rep = base_report(&out);
        rep.nontrivial = out.events("svc:strategy", "call").count() > 0
            || out.log.iter().any(|e| e.kind == "done" && e.detail["result"] == json!("error"));
        if held {
            *rep.faults.entry("keep_alive_write_held_back".into()).or_insert(0) += 1;
        }
        if !sc.prelude.is_empty() {
            *rep.faults.entry("earlier_connection_ended_abruptly".into()).or_insert(0) += 1;
        }
        check(sc, &out, &mut rep);
        rep
    }
}
