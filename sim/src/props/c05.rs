//! C05 - encrypted traffic is one continuous AES-128-CFB8 stream under any I/O schedule.
//! Layer (a): the real `CipherStream` polled by hand over a scripted transport that returns
//! `Pending`, accepts prefixes, and produces reads of arbitrary sizes. Layer (b): a whole login in
//! Conn-sim under write faults, decoded by the independent client.

use crate::ccrypto::Cfb8;
use crate::client::ClientSpec;
use crate::conn::{ConnCfg, ConnScenario, run_conn};
use crate::pipe::WRule;
use crate::rng::{Fnv, Rng};
use crate::runner::{Check, RunReport, Tier};
use crate::services::{DiscRes, Script, Services, TargetSpec};
use crate::world::{hex, hexopt, hexser};
use passage_protocol::crypto::stream::{Aes128Cfb8Dec, Aes128Cfb8Enc, CipherStream, create_ciphers};
use serde::{Deserialize, Serialize};
use serde_json::{Value, json};
use std::cell::RefCell;
use std::collections::VecDeque;
use std::rc::Rc;
use std::io;
use std::pin::Pin;
use std::task::{Context, Poll, Waker};
use tokio::io::{AsyncRead, AsyncWrite, ReadBuf};

#[derive(Clone, Debug, Serialize, Deserialize, PartialEq)]
pub enum TW {
    Pending,
    Accept(usize),
    All,
}

#[derive(Clone, Debug, Serialize, Deserialize, PartialEq)]
pub struct RChunk {
    pub pending_before: u8,
    #[serde(with = "hexser")]
    pub data: Vec<u8>,
}

#[derive(Clone, Debug, Serialize, Deserialize, PartialEq)]
pub enum Op {
    /// write_all-style loop over `poll_write`
    Write {
        #[serde(with = "hexser")]
        data: Vec<u8>,
        tw: Vec<TW>,
        /// after the first `Pending` the caller abandons `data` and writes this instead
        #[serde(default, with = "hexopt")]
        retry_other: Option<Vec<u8>>,
        /// the other plaintext is placed in the very same buffer (same address, same length)
        #[serde(default)]
        same_buffer: bool,
    },
    /// a gathered write: the plaintext is offered as several slices to `poll_write_vectored`
    WriteVectored {
        bufs: Vec<HexBytes>,
        tw: Vec<TW>,
    },
    Switch,
    /// the switch happens while the caller already holds bytes it read ahead of it (a client that
    /// pipelines behind its Encryption Response): they are decrypted in place with `decrypt_buffered`
    SwitchAhead {
        #[serde(with = "hexser")]
        ahead: Vec<u8>,
        buf: usize,
    },
    Read {
        chunks: Vec<RChunk>,
        /// read buffer size per poll (cycled)
        bufs: Vec<usize>,
        /// bytes already filled in the ReadBuf before each poll
        prefill: usize,
    },
}

#[derive(Clone, Debug, Serialize, Deserialize, PartialEq)]
pub struct HexBytes(#[serde(with = "hexser")] pub Vec<u8>);

#[derive(Clone, Debug, Serialize, Deserialize, PartialEq)]
pub struct UnitSc {
    #[serde(with = "hexser")]
    pub secret: Vec<u8>,
    pub ops: Vec<Op>,
}

#[derive(Clone, Debug, Serialize, Deserialize, PartialEq)]
pub enum C05Sc {
    Unit(UnitSc),
    Conn(Box<ConnScenario>),
    /// logins through a real `Listener` whose deadline strikes in the encrypted phase (routing stalls): whatever the
    /// listener itself puts on the socket at the end must be part of the one encrypted stream as well
    Listener(Box<crate::net::NetScenario>),
}

#[derive(Default)]
struct TState {
    wq: VecDeque<TW>,
    accepted: Vec<u8>,
    rq: VecDeque<(u8, Vec<u8>, usize)>,
    produced: Vec<u8>,
    pendings: u64,
    partials: u64,
}

/// The transport; its state is shared with the harness (CipherStream keeps its inner stream private).
struct ScriptT(Rc<RefCell<TState>>);

impl AsyncWrite for ScriptT {
    fn poll_write(self: Pin<&mut Self>, _cx: &mut Context<'_>, buf: &[u8]) -> Poll<io::Result<usize>> {
        let mut this = self.0.borrow_mut();
        let n = match this.wq.pop_front() {
            Some(TW::Pending) => {
                this.pendings += 1;
                return Poll::Pending;
            }
            Some(TW::Accept(n)) => {
                let n = n.max(1).min(buf.len());
                if n < buf.len() {
                    this.partials += 1;
                }
                n
            }
            Some(TW::All) | None => buf.len(),
        };
        this.accepted.extend_from_slice(&buf[..n]);
        Poll::Ready(Ok(n))
    }
    fn poll_flush(self: Pin<&mut Self>, _cx: &mut Context<'_>) -> Poll<io::Result<()>> {
        Poll::Ready(Ok(()))
    }
    fn poll_shutdown(self: Pin<&mut Self>, _cx: &mut Context<'_>) -> Poll<io::Result<()>> {
        Poll::Ready(Ok(()))
    }
    // like a real socket the transport takes gathered writes (so a wrapper that merely forwards them shows)
    fn is_write_vectored(&self) -> bool {
        true
    }
    fn poll_write_vectored(self: Pin<&mut Self>, cx: &mut Context<'_>, bufs: &[io::IoSlice<'_>]) -> Poll<io::Result<usize>> {
        let all: Vec<u8> = bufs.iter().flat_map(|b| b.iter().copied()).collect();
        self.poll_write(cx, &all)
    }
}

impl AsyncRead for ScriptT {
    fn poll_read(self: Pin<&mut Self>, _cx: &mut Context<'_>, buf: &mut ReadBuf<'_>) -> Poll<io::Result<()>> {
        let mut guard = self.0.borrow_mut();
        let this = &mut *guard;
        let Some(front) = this.rq.front_mut() else {
            return Poll::Ready(Ok(())); // EOF
        };
        if front.0 > 0 {
            front.0 -= 1;
            this.pendings += 1;
            return Poll::Pending;
        }
        let n = (front.1.len() - front.2).min(buf.remaining());
        buf.put_slice(&front.1[front.2..front.2 + n]);
        this.produced.extend_from_slice(&front.1[front.2..front.2 + n]);
        front.2 += n;
        if front.2 == front.1.len() {
            this.rq.pop_front();
        }
        Poll::Ready(Ok(()))
    }
}

pub fn run_unit(sc: &UnitSc) -> RunReport {
    let mut rep = RunReport {
        runs: 1,
        ..Default::default()
    };
    let ts = Rc::new(RefCell::new(TState::default()));
    let mut cs: CipherStream<ScriptT, Aes128Cfb8Enc, Aes128Cfb8Dec> =
        CipherStream::from_stream(ScriptT(ts.clone()));
    let waker = Waker::noop();
    let mut cx = Context::from_waker(waker);
    let mut plain_written: Vec<u8> = vec![];
    let mut surfaced: Vec<u8> = vec![];
    let mut wswitch: Option<usize> = None;
    let mut rswitch: Option<usize> = None;
    let mut trace = Fnv::default();
    let mut faults_after_switch = false;
    for op in &sc.ops {
        match op {
            Op::Switch => {
                if wswitch.is_some() {
                    continue;
                }
                let Ok((e, d)) = create_ciphers(&sc.secret) else {
                    rep.violate("cipher_creation", "create_ciphers failed for a 16-byte secret".into());
                    return rep;
                };
                cs.set_encryption(Some(e), Some(d));
                wswitch = Some(plain_written.len());
                rswitch = Some(surfaced.len());
                trace.write_str("switch");
            }
            Op::SwitchAhead { ahead, buf } => {
                if wswitch.is_some() || ahead.is_empty() {
                    continue;
                }
                // the bytes come off the transport while the stream is still in plaintext mode
                ts.borrow_mut().rq = vec![(0u8, ahead.clone(), 0usize)].into();
                let mut held: Vec<u8> = vec![];
                let mut polls = 0;
                while !ts.borrow().rq.is_empty() && polls < 4096 {
                    polls += 1;
                    let mut storage = vec![0u8; (*buf).max(1)];
                    let mut rb = ReadBuf::new(&mut storage);
                    if let Poll::Ready(Ok(())) = Pin::new(&mut cs).poll_read(&mut cx, &mut rb) {
                        held.extend_from_slice(rb.filled());
                    }
                }
                let Ok((e, d)) = create_ciphers(&sc.secret) else {
                    rep.violate("cipher_creation", "create_ciphers failed for a 16-byte secret".into());
                    return rep;
                };
                wswitch = Some(plain_written.len());
                rswitch = Some(surfaced.len());
                cs.set_encryption(Some(e), Some(d));
                cs.decrypt_buffered(&mut held);
                surfaced.extend_from_slice(&held);
                faults_after_switch = true;
                *rep.faults.entry("bytes_read_ahead_of_the_switch".into()).or_insert(0) += 1;
                trace.write_str("switch_ahead");
                trace.write_u64(ahead.len() as u64);
            }
            Op::WriteVectored { bufs, tw } => {
                ts.borrow_mut().wq = tw.clone().into();
                let mut rest: Vec<Vec<u8>> = bufs.iter().map(|b| b.0.clone()).filter(|b| !b.is_empty()).collect();
                let mut polls = 0;
                *rep.faults.entry("gathered_write".into()).or_insert(0) += 1;
                trace.write_str("wv");
                while !rest.is_empty() && polls < 64 {
                    polls += 1;
                    let slices: Vec<std::io::IoSlice<'_>> = rest.iter().map(|b| std::io::IoSlice::new(b)).collect();
                    match Pin::new(&mut cs).poll_write_vectored(&mut cx, &slices) {
                        Poll::Pending => {
                            trace.write_str("wp");
                            *rep.faults.entry("transport_write_pending".into()).or_insert(0) += 1;
                        }
                        Poll::Ready(Ok(n)) => {
                            let total: usize = rest.iter().map(|b| b.len()).sum();
                            if n == 0 || n > total {
                                rep.violate("write_count", format!("poll_write_vectored returned {n} for {total} bytes offered"));
                                return rep;
                            }
                            if wswitch.is_some() {
                                faults_after_switch = true;
                            }
                            let mut left = n;
                            while left > 0 {
                                let take = left.min(rest[0].len());
                                plain_written.extend_from_slice(&rest[0][..take]);
                                rest[0].drain(..take);
                                if rest[0].is_empty() {
                                    rest.remove(0);
                                }
                                left -= take;
                            }
                            trace.write_u64(n as u64);
                        }
                        Poll::Ready(Err(e)) => {
                            rep.violate("write_error", format!("unexpected error {e}"));
                            return rep;
                        }
                    }
                }
                ts.borrow_mut().wq.clear();
            }
            Op::Write { data, tw, retry_other, same_buffer } => {
                ts.borrow_mut().wq = tw.clone().into();
                let mut rest: Vec<u8> = data.clone();
                let mut other = retry_other.clone();
                let mut polls = 0;
                while !rest.is_empty() && polls < 64 {
                    polls += 1;
                    match Pin::new(&mut cs).poll_write(&mut cx, &rest) {
                        Poll::Pending => {
                            trace.write_str("wp");
                            *rep.faults.entry("transport_write_pending".into()).or_insert(0) += 1;
                            if wswitch.is_some() {
                                faults_after_switch = true;
                            }
                            if let Some(o) = other.take() {
                                if *same_buffer {
                                    // cancel the write and reuse the scratch buffer for other plaintext
                                    *rep.faults.entry("retry_with_other_plaintext_same_buffer".into()).or_insert(0) += 1;
                                    for (i, b) in rest.iter_mut().enumerate() {
                                        *b = o[i % o.len().max(1)] ^ (i as u8);
                                    }
                                } else {
                                    *rep.faults.entry("retry_with_other_buffer".into()).or_insert(0) += 1;
                                    rest = o;
                                }
                            }
                        }
                        Poll::Ready(Ok(n)) => {
                            if n == 0 || n > rest.len() {
                                rep.violate("write_count", format!("poll_write returned {n} for a {}-byte buffer", rest.len()));
                                return rep;
                            }
                            if n < rest.len() {
                                trace.write_str("wpart");
                                *rep.faults.entry("transport_partial_accept".into()).or_insert(0) += 1;
                                if wswitch.is_some() {
                                    faults_after_switch = true;
                                }
                            } else {
                                trace.write_str("wall");
                            }
                            plain_written.extend_from_slice(&rest[..n]);
                            rest.drain(..n);
                        }
                        Poll::Ready(Err(e)) => {
                            rep.violate("write_error", format!("unexpected error {e}"));
                            return rep;
                        }
                    }
                }
                ts.borrow_mut().wq.clear();
            }
            Op::Read { chunks, bufs, prefill } => {
                ts.borrow_mut().rq = chunks
                    .iter()
                    .map(|c| (c.pending_before, c.data.clone(), 0usize))
                    .collect();
                let mut k = 0usize;
                let mut polls = 0;
                while !ts.borrow().rq.is_empty() && polls < 4096 {
                    polls += 1;
                    let size = bufs.get(k % bufs.len().max(1)).copied().unwrap_or(1).max(1);
                    k += 1;
                    let mut storage = vec![0u8; prefill + size];
                    for b in storage.iter_mut().take(*prefill) {
                        *b = 0xAA;
                    }
                    let mut rb = ReadBuf::new(&mut storage);
                    rb.set_filled(*prefill);
                    match Pin::new(&mut cs).poll_read(&mut cx, &mut rb) {
                        Poll::Pending => {
                            trace.write_str("rp");
                            *rep.faults.entry("transport_read_pending".into()).or_insert(0) += 1;
                        }
                        Poll::Ready(Ok(())) => {
                            let filled = rb.filled().to_vec();
                            if filled.len() < *prefill || filled[..*prefill].iter().any(|b| *b != 0xAA) {
                                rep.violate("read_prefix_untouched", "bytes already in the read buffer were modified".into());
                                return rep;
                            }
                            trace.write_str("r");
                            trace.write_u64((filled.len() - prefill) as u64);
                            if size == 1 || filled.len() - prefill < size {
                                *rep.faults.entry("short_read".into()).or_insert(0) += 1;
                                if rswitch.is_some() {
                                    faults_after_switch = true;
                                }
                            }
                            surfaced.extend_from_slice(&filled[*prefill..]);
                        }
                        Poll::Ready(Err(e)) => {
                            rep.violate("read_error", format!("unexpected error {e}"));
                            return rep;
                        }
                    }
                }
            }
        }
    }
    drop(cs);
    let t = ts.borrow();
    // write direction
    let sw = wswitch.unwrap_or(plain_written.len());
    let mut expect = plain_written.clone();
    if wswitch.is_some() {
        let mut c = Cfb8::new(&sc.secret).expect("16-byte secret");
        c.encrypt(&mut expect[sw..]);
    }
    if t.accepted != expect {
        let at = t
            .accepted
            .iter()
            .zip(expect.iter())
            .position(|(a, b)| a != b)
            .unwrap_or(t.accepted.len().min(expect.len()));
        rep.violate(
            "write_stream",
            format!(
                "bytes accepted by the transport diverge from CFB8(plaintext reported written) at byte {at} (switch at {sw}, accepted {} bytes, reported written {})",
                t.accepted.len(),
                plain_written.len()
            ),
        );
    }
    // read direction
    let rsw = rswitch.unwrap_or(t.produced.len());
    let mut expect_r = t.produced.clone();
    if rswitch.is_some() && rsw <= expect_r.len() {
        let mut c = Cfb8::new(&sc.secret).expect("16-byte secret");
        c.decrypt(&mut expect_r[rsw..]);
    }
    if surfaced != expect_r {
        let at = surfaced
            .iter()
            .zip(expect_r.iter())
            .position(|(a, b)| a != b)
            .unwrap_or(surfaced.len().min(expect_r.len()));
        rep.violate(
            "read_stream",
            format!("bytes surfaced to the reader diverge from CFB8-decryption of the transport's bytes at byte {at}"),
        );
    }
    rep.nontrivial = faults_after_switch;
    rep.trace_hash = trace.0;
    let mut fh = Fnv::default();
    fh.write(&t.accepted);
    fh.write(&surfaced);
    fh.write_u64(trace.0);
    rep.full_hash = fh.0;
    rep
}

pub struct C05;

fn gen_unit(rng: &mut Rng) -> UnitSc {
    let mut ops = vec![];
    let nops = rng.range(2, 10);
    let switch_at = rng.below(nops);
    for i in 0..nops {
        if i == switch_at {
            if rng.chance(1, 3) {
                let l = *rng.pick(&[1usize, 2, 15, 16, 17, 40, 300]);
                ops.push(Op::SwitchAhead { ahead: rng.bytes(l), buf: *rng.pick(&[1usize, 7, 16, 64, 1024]) });
            } else {
                ops.push(Op::Switch);
            }
        }
        if rng.chance(2, 3) {
            let len = *rng.pick(&[1usize, 2, 3, 7, 15, 16, 17, 31, 32, 33, 100, 300]);
            let data = rng.bytes(len);
            let mut tw = vec![];
            let mode = rng.below(5);
            for _ in 0..rng.range(0, 6) {
                tw.push(match mode {
                    0 => TW::All,
                    1 => TW::Accept(rng.range(1, len as u64) as usize),
                    2 => {
                        if rng.chance(1, 2) {
                            TW::Pending
                        } else {
                            TW::All
                        }
                    }
                    _ => match rng.below(3) {
                        0 => TW::Pending,
                        1 => TW::Accept(rng.range(1, len as u64) as usize),
                        _ => TW::All,
                    },
                });
            }
            let retry_other = if rng.chance(1, 6) {
                { let l = *rng.pick(&[1usize, 5, 16, 40]); Some(rng.bytes(l)) }
            } else {
                None
            };
            let same_buffer = retry_other.is_some() && rng.chance(1, 2);
            if retry_other.is_none() && rng.chance(1, 6) {
                // the same bytes offered as two or three slices
                let a = rng.usize_below(data.len() + 1);
                let b = a + rng.usize_below(data.len() - a + 1);
                ops.push(Op::WriteVectored { bufs: vec![HexBytes(data[..a].to_vec()), HexBytes(data[a..b].to_vec()), HexBytes(data[b..].to_vec())], tw });
            } else {
                ops.push(Op::Write { data, tw, retry_other, same_buffer });
            }
        } else {
            let mut chunks = vec![];
            for _ in 0..rng.range(1, 4) {
                chunks.push(RChunk {
                    pending_before: rng.below(3) as u8,
                    data: { let l = *rng.pick(&[1usize, 2, 15, 16, 17, 50]); rng.bytes(l) },
                });
            }
            let mut bufs = vec![];
            for _ in 0..rng.range(1, 4) {
                bufs.push(*rng.pick(&[1usize, 2, 3, 15, 16, 17, 64]));
            }
            ops.push(Op::Read {
                chunks,
                bufs,
                prefill: *rng.pick(&[0usize, 0, 1, 5, 16]),
            });
        }
    }
    UnitSc {
        secret: rng.bytes(16),
        ops,
    }
}

fn gen_conn(rng: &mut Rng) -> ConnScenario {
    let mut services = Services::default();
    services.discovery = Script::always(
        Some(0),
        DiscRes::Targets(vec![TargetSpec {
            id: "t1".into(),
            addr: "10.1.2.3:25570".into(),
            meta: Default::default(),
        }]),
    );
    let intent = if rng.chance(1, 2) { 2 } else { 3 };
    let mut client = ClientSpec::base(rng, intent);
    client.info_delay_ns = *rng.pick(&[0u64, 20_000_000_000, 40_000_000_000]);
    let mut wplan = vec![];
    // leave the plaintext prefix alone or not, at random
    for _ in 0..rng.range(1, 14) {
        wplan.push(match rng.below(6) {
            0 => WRule::Accept { max: rng.range(1, 40) as usize },
            1 => WRule::Accept { max: 1 },
            2 => WRule::Pend { ns: rng.range(1, 5_000_000) },
            3 => WRule::Spurious,
            _ => WRule::Accept { max: 100_000 },
        });
    }
    // the client's encrypted frames (Login Acknowledged onwards start around offset 330) arrive in pieces too
    for _ in 0..rng.below(4) {
        client.cuts.push(crate::client::Cut {
            at: rng.range(300, 380),
            gate: if rng.chance(1, 2) { crate::pipe::Gate::Now } else { crate::pipe::Gate::Delay { ns: rng.range(1, 3) * 1_000_000 } },
            spurious: rng.below(3) as u8,
        });
    }
    // a client that pipelines Login Acknowledged (and Client Information) behind its Encryption Response, in one segment
    if rng.chance(1, 3) {
        client.early_ack = true;
        client.coalesce = true;
        if rng.chance(1, 2) {
            client.info_delay_ns = 0;
        }
        // ... and a few hundred bytes of plugin messages with them (more read-ahead than one growth step of the read buffer)
        if rng.chance(1, 2) {
            for k in 0..rng.range(1, 3) {
                let mut b = b"\x0fminecraft:brand".to_vec();
                b.resize(rng.range(150, 600) as usize, 0x2e);
                client.extras.push(crate::client::Extra { after_ack: true, at_ns: k, id: 0x02, body: crate::client::Body::Raw { bytes: b } });
            }
        }
    }
    let cfg = ConnCfg {
        secret: if rng.chance(1, 2) { Some(rng.bytes(8)) } else { None },
        ..Default::default()
    };
    // a returning player whose genuine cookie lets the server skip the authentication step between the Encryption
    // Response and the switch to the encrypted stream
    if let (3, Some(sec)) = (intent, &cfg.secret)
        && rng.chance(1, 2)
    {
        let id = super::common::Identity { name: "Returning".into(), uuid: 0x5151, props: vec![] };
        client.auth_cookie = Some(super::common::signed_cookie(sec, &super::common::cookie_json(crate::conn::Wall::default().base_s - 5, &cfg.client_addr, &id, Some("t1"))));
    }
    ConnScenario {
        seed: rng.next_u64(),
        cfg,
        wall: Default::default(),
        services,
        client,
        wplan,
        cap_ns: 600_000_000_000,
        prelude: vec![],
        growth: None,
    }
}

fn gen_listener(rng: &mut Rng) -> crate::net::NetScenario {
    use crate::net::{NetCfg, NetClient, NetScenario};
    let timeout_s = *rng.pick(&[3u64, 5, 20, 40]);
    let mut services = Services::default();
    services.discovery = Script::always(
        *rng.pick(&[None, None, Some(90_000_000_000u64), Some(0)]),
        DiscRes::Targets(vec![TargetSpec { id: "t1".into(), addr: "10.1.2.3:25570".into(), meta: Default::default() }]),
    );
    let n = rng.range(1, 2);
    let clients = (0..n)
        .map(|i| {
            let intent = if rng.chance(1, 2) { 2 } else { 3 };
            let mut spec = ClientSpec::base(rng, intent);
            spec.close_on_end_ns = None;
            spec.coalesce = rng.chance(1, 2);
            spec.info_delay_ns = *rng.pick(&[0u64, 1_000_000_000]);
            NetClient { connect_at_ns: rng.range(0, 2_000) * 1_000_000, peer: format!("192.0.2.{}:{}", 30 + i, 41_000 + i), spec, wplan: vec![] }
        })
        .collect();
    NetScenario {
        seed: rng.next_u64(),
        cfg: NetCfg { secret: None, expiry: None, max_frame: None, timeout_ns: timeout_s * 1_000_000_000, proxy: None, limiter: None, use_start: false, agones: false, secret_source: None, localization_from_services: false },
        wall: Default::default(),
        services,
        clients,
        stop_at_ns: None,
        stop_before: false,
        yields_before_stop: 0,
        relisten: false,
        cap_ns: (2 * timeout_s + 30) * 1_000_000_000,
    }
}

impl Check for C05 {
    type Sc = C05Sc;
    fn id(&self) -> &'static str {
        "C05"
    }
    fn level(&self) -> &'static str {
        "fault_enumeration"
    }
    fn rule_text(&self) -> String {
        "4 of 5 cases: operation sequences (writes with a per-poll transport plan of Pending / prefix acceptance / full acceptance, optional retry with another buffer - or other plaintext in the same buffer - after Pending; reads with transport chunks, Pending and read-buffer sizes down to 1 byte, pre-filled ReadBuf; the plaintext->ciphertext switch at a random operation boundary) against the real CipherStream polled by hand; 1 of 5: a whole login through the real Connection under write faults, decoded by the independent client. Non-trivial = at least one Pending / partial acceptance / short read fired after encryption was enabled; distinct = distinct hash of the operation/fault outcome sequence.".into()
    }
    fn assumptions(&self) -> Vec<String> {
        vec![
            "the oracle's CFB8 (shift register over aes::Aes128::encrypt_block) is itself correct; it is cross-checked against the real client/server interop in every Conn-sim login".into(),
            "the scripted transport honours the AsyncRead/AsyncWrite contracts (never returns 0 for a non-empty write)".into(),
        ]
    }
    fn components(&self) -> Value {
        json!({"real": ["passage_protocol::crypto::stream::CipherStream", "create_ciphers", "Connection (layer b)", "Listener::handle incl. its deadline (listener mode)", "aes/cfb8 crates as used by /repo"],
               "stub": ["transport (scripted poll-level)", "client (independent codec + CFB8)", "services (layer b)"]})
    }
    fn count(&self, tier: Tier) -> u64 {
        match tier {
            Tier::Quick => 600_000,
            Tier::Thorough => 30_000_000,
        }
    }
    fn generate(&self, rng: &mut Rng, index: u64, _tier: Tier) -> C05Sc {
        if index % 25 == 24 {
            return C05Sc::Listener(Box::new(gen_listener(rng)));
        }
        if index % 5 == 4 {
            C05Sc::Conn(Box::new(gen_conn(rng)))
        } else {
            C05Sc::Unit(gen_unit(rng))
        }
    }
    fn execute(&self, sc: &C05Sc) -> RunReport {
        match sc {
            C05Sc::Listener(n) => {
                if !super::common::net_domain_ok(n) || n.cfg.use_start || n.cfg.proxy.is_some() || n.cfg.limiter.is_some() || n.stop_at_ns.is_some() || n.cfg.timeout_ns < 1_000_000_000 || n.clients.is_empty()
                    || n.clients.iter().any(|c| !matches!(c.spec.intent, 2 | 3) || c.spec.script.is_some() || !c.spec.mutations.is_empty() || !matches!(c.spec.enc, crate::client::EncVariant::Honest) || c.spec.shared_secret.len() != 16 || !c.wplan.is_empty() || !c.spec.cuts.is_empty() || c.spec.preamble.is_some())
                {
                    return RunReport::default();
                }
                let out = crate::net::run_net(n);
                let mut rep = RunReport { runs: 1, trace_hash: out.trace_hash(), full_hash: out.full_hash(), sim_ns: out.end_ns, ..Default::default() };
                rep.merge_counts(&out.faults, &out.probes);
                rep.nontrivial = true;
                *rep.faults.entry("listener_deadline_in_the_encrypted_phase".into()).or_insert(0) += 1;
                if !out.panics.is_empty() {
                    rep.violate("no_panic", format!("panicked: {}", out.panics[0].replace('\n', " ")));
                }
                for (i, c) in out.clients.iter().enumerate() {
                    if let Some(u) = &c.view.undecodable {
                        rep.violate("conn_stream_decodes", format!("client {i} cannot decode what the server put on the socket (encryption {}): {u}", if c.view.encrypted { "on" } else { "off" }));
                    } else if c.view.partial_at_eof != 0 {
                        rep.violate("conn_stream_decodes", format!("client {i}: {} bytes at the end of the stream that are no whole frame", c.view.partial_at_eof));
                    }
                }
                rep
            }
            C05Sc::Unit(u) => run_unit(u),
            C05Sc::Conn(c) => {
                // outside this check's domain (shrinking may propose such scenarios): anything but an honest, complete login
                let cl = &c.client;
                if !super::common::conn_domain_ok(c) || !matches!(cl.intent, 2 | 3) || cl.script.is_some() || !cl.mutations.is_empty() || !matches!(cl.enc, crate::client::EncVariant::Honest) || !cl.send_info
                    || cl.close_after.is_some() || cl.mute_after.is_some() || cl.shared_secret.len() != 16 || cl.protocol <= 0 || !matches!(cl.ka_default, crate::client::KaPolicy::Prompt) || !cl.ka.is_empty()
                    || cl.extras.iter().any(|x| !x.after_ack || x.id != 0x02 || !matches!(&x.body, crate::client::Body::Raw { bytes } if bytes.starts_with(b"\x0fminecraft:brand")))
                    || (!cl.extras.is_empty() && !cl.early_ack)
                    || c.services.discovery.default.lat_ns != Some(0) || !c.services.discovery.calls.is_empty() || !matches!(&c.services.discovery.default.res, DiscRes::Targets(t) if !t.is_empty())
                {
                    return RunReport::default();
                }
                let out = run_conn(c);
                let mut rep = RunReport {
                    runs: 1,
                    trace_hash: out.trace_hash(),
                    full_hash: out.full_hash(),
                    sim_ns: out.end_ns,
                    ..Default::default()
                };
                rep.merge_counts(&out.faults, &out.probes);
                if c.client.early_ack {
                    *rep.faults.entry("client_pipelines_behind_encryption_response".into()).or_insert(0) += 1;
                }
                rep.nontrivial = c.client.early_ack
                    || out.faults.contains_key("write_partial_accept")
                    || out.faults.contains_key("write_pending_delay")
                    || out.faults.contains_key("write_spurious_pending");
                if let Some(u) = &out.view.undecodable {
                    rep.violate("conn_stream_decodes", format!("client cannot decode the server's byte stream: {u}"));
                } else if out.view.partial_at_eof != 0 {
                    rep.violate("conn_stream_decodes", format!("{} undecodable trailing bytes at EOF", out.view.partial_at_eof));
                } else if out.result != "Ok" || out.view.first("Transfer").is_none() {
                    rep.violate(
                        "conn_completes",
                        format!("login under write faults ended with {} {} / packets {:?}", out.result, out.result_text, out.view.kinds()),
                    );
                }
                let _ = hex(&[]);
                rep
            }
        }
    }
}
