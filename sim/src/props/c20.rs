//! C20 - Agones discovery offers exactly the currently ready game servers.
//! The real `AgonesDiscoveryAdapter` and the real kube watcher / backoff run against the simulated
//! API server (`apisim`) under virtual time. After every step the simulator settles (a watch is
//! open and has been sent everything, bounded by 180 s) and compares `discover()` with the
//! server's single-copy store.

use crate::apisim::{self, Api, ApiState};
use crate::conn::new_runtime;
use crate::rng::{Fnv, Rng};
use crate::runner::{Check, RunReport, Tier};
use passage_adapters::discovery::DiscoveryAdapter;
use passage_adapters_agones::AgonesDiscoveryAdapter;
use passage_adapters_agones::watcher_config;
use serde::{Deserialize, Serialize};
use serde_json::{Value, json};
use std::collections::BTreeMap;
use std::net::IpAddr;
use std::sync::{Arc, Mutex};
use std::time::Duration;
use tokio::time::Instant;

pub struct C20;

#[derive(Clone, Debug, Serialize, Deserialize, PartialEq)]
pub struct Gs {
    pub name: String,
    pub state: String,
    /// None: no status at all
    pub address: Option<String>,
    pub ports: Vec<u16>,
    pub counters: BTreeMap<String, Option<u32>>,
    pub lists: BTreeMap<String, Vec<String>>,
    pub labels: BTreeMap<String, String>,
    pub annotations: BTreeMap<String, String>,
}

impl Gs {
    pub fn to_json(&self) -> Value {
        let mut o = json!({
            "apiVersion": "agones.dev/v1",
            "kind": "GameServer",
            "metadata": {"name": self.name, "namespace": "default", "uid": format!("uid-{}", self.name), "labels": self.labels, "annotations": self.annotations},
            "spec": {"container": "game"},
        });
        if let Some(addr) = &self.address {
            let counters: BTreeMap<&String, Value> = self.counters.iter().map(|(k, v)| (k, json!({"count": v, "capacity": 100}))).collect();
            let lists: BTreeMap<&String, Value> = self.lists.iter().map(|(k, v)| (k, json!({"capacity": 10, "values": v}))).collect();
            o["status"] = json!({
                "address": addr,
                "ports": self.ports.iter().enumerate().map(|(i, p)| json!({"name": format!("p{i}"), "port": p})).collect::<Vec<_>>(),
                "state": self.state,
                "counters": counters,
                "lists": lists,
                "nodeName": "node-1",
            });
        }
        o
    }

    /// What the property says must be offered for this object (None: not offered).
    fn expected(&self) -> Option<(String, String, BTreeMap<String, String>)> {
        if self.state != "Ready" && self.state != "Allocated" {
            return None;
        }
        let ip: IpAddr = self.address.as_ref()?.parse().ok()?;
        let port = *self.ports.first()?;
        let mut meta = BTreeMap::new();
        meta.insert("state".to_string(), self.state.clone());
        for (k, v) in &self.counters {
            meta.insert(k.clone(), v.unwrap_or(0).to_string());
        }
        for (k, v) in &self.lists {
            meta.insert(k.clone(), v.join(","));
        }
        for (k, v) in &self.labels {
            meta.insert(k.clone(), v.clone());
        }
        for (k, v) in &self.annotations {
            meta.insert(k.clone(), v.clone());
        }
        Some((self.name.clone(), std::net::SocketAddr::new(ip, port).to_string(), meta))
    }
}

#[derive(Clone, Debug, Serialize, Deserialize, PartialEq)]
pub enum Step {
    Apply(Gs),
    Delete { name: String },
    Bookmark,
    /// 0 clean EOF, 1 I/O error, 2 mid-line
    DropWatch { how: u8 },
    Http500 { lists: u32, watches: u32 },
    /// compaction: the next watch from an older version gets ERROR 410 (forces a re-list)
    Compact,
    /// ERROR 410 on the open watch right now
    GoneNow,
    ExpireContinue,
    Latency { ms: u64 },
    Chunked { on: bool },
    DuplicateOnReconnect { on: bool },
    /// let virtual time pass (watch timeouts, backoff)
    Idle { s: u64 },
}

#[derive(Clone, Debug, Serialize, Deserialize, PartialEq)]
pub struct C20Sc {
    pub seed: u64,
    pub page_size: u32,
    pub initial: Vec<Gs>,
    /// steps; a store mutation may be marked to happen while the initial list is being paged
    pub steps: Vec<Step>,
    /// apply this many of the first steps before the adapter has started its watch (between list pages)
    pub early_steps: usize,
    /// per step (parallel to `steps`): 0 = settle and compare after the step; otherwise only this many
    /// milliseconds of virtual time pass before the next step, so that store changes and faults land
    /// while the watcher is still busy with the previous ones (re-listing, backing off, reconnecting)
    #[serde(default)]
    pub gaps_ms: Vec<u64>,
    /// build the adapter the way the application does (`DynDiscoveryAdapter::from_config`, page size 500)
    /// and ask through that wrapper
    #[serde(default)]
    pub via_config: bool,
}

enum Ad {
    Direct(AgonesDiscoveryAdapter),
    App(passage::adapter::discovery::DynDiscoveryAdapter),
}

impl Ad {
    async fn discover(&self) -> passage_adapters::Result<Vec<passage_adapters::Target>> {
        match self {
            Ad::Direct(a) => a.discover().await,
            Ad::App(a) => a.discover().await,
        }
    }
}

const STATES: &[&str] = &["PortAllocation", "Creating", "Starting", "Scheduled", "RequestReady", "Ready", "Ready", "Ready", "Allocated", "Allocated", "Reserved", "Shutdown", "Error", "Unhealthy"];

fn gen_gs(rng: &mut Rng, name: &str) -> Gs {
    let mut counters = BTreeMap::new();
    if rng.chance(1, 2) {
        counters.insert("players".to_string(), if rng.chance(1, 6) { None } else { Some(rng.below(100) as u32) });
    }
    let mut lists = BTreeMap::new();
    if rng.chance(1, 3) {
        lists.insert("rooms".to_string(), (0..rng.below(4)).map(|i| format!("r{i}")).collect());
    }
    let mut labels = BTreeMap::new();
    if rng.chance(1, 2) {
        labels.insert("agones.dev/fleet".to_string(), format!("fleet-{}", rng.below(3)));
    }
    let mut annotations = BTreeMap::new();
    if rng.chance(1, 3) {
        annotations.insert("example.org/note".to_string(), format!("n{}", rng.below(1000)));
    }
    let shape = rng.below(14);
    // several game servers on one node, also with the same host port (legal with port policy None / Passthrough)
    let shared_node = rng.chance(1, 5);
    Gs {
        name: name.to_string(),
        state: (*rng.pick(STATES)).to_string(),
        address: match shape {
            0 => None,                              // no status
            1 => Some(String::new()),               // empty address
            2 => Some("node-7.internal".into()),    // host name, not an IP
            3 => Some(format!("fd00::{:x}", rng.range(1, 0xffff))),
            _ if shared_node => Some("10.0.0.1".into()),
            _ => Some(format!("10.{}.{}.{}", rng.below(256), rng.below(256), rng.range(1, 254))),
        },
        ports: match shape {
            4 => vec![],
            _ if shared_node => vec![7000 + rng.below(2) as u16],
            5 => vec![rng.range(1, 65535) as u16, rng.range(1, 65535) as u16],
            _ => vec![rng.range(1, 65535) as u16],
        },
        counters,
        lists,
        labels,
        annotations,
    }
}

fn generate(rng: &mut Rng) -> C20Sc {
    let mut sc = generate0(rng);
    sc.via_config = sc.page_size == 500 && rng.chance(1, 2);
    sc
}

fn generate0(rng: &mut Rng) -> C20Sc {
    let nnames = rng.range(1, 12) as usize;
    let names: Vec<String> = (0..nnames).map(|i| format!("gs-{i}")).collect();
    let mut initial: Vec<Gs> = vec![];
    for n in &names {
        if rng.chance(1, 2) {
            initial.push(gen_gs(rng, n));
        }
    }
    let nsteps = rng.range(1, 30);
    let calm = rng.chance(1, 3);
    let mut steps = vec![];
    for _ in 0..nsteps {
        let r = if calm { rng.below(10) } else { rng.below(24) };
        steps.push(match r {
            0..=5 => {
                let n = rng.pick(&names).clone();
                Step::Apply(gen_gs(rng, &n))
            }
            6..=8 => Step::Delete { name: rng.pick(&names).clone() },
            9 => Step::Bookmark,
            10 | 11 => Step::DropWatch { how: rng.below(3) as u8 },
            // (now and then an outage of seven or eight refused watch requests in a row)
            12 => Step::Http500 { lists: rng.below(3) as u32, watches: if rng.chance(1, 4) { *rng.pick(&[7u32, 8]) } else { rng.below(3) as u32 } },
            13 | 14 => Step::Compact,
            15 => Step::GoneNow,
            16 => Step::ExpireContinue,
            17 => Step::Latency { ms: *rng.pick(&[0u64, 5, 400, 3000]) },
            18 => Step::Chunked { on: rng.chance(2, 3) },
            19 => Step::DuplicateOnReconnect { on: rng.chance(2, 3) },
            20 => Step::Idle { s: *rng.pick(&[1u64, 30, 200, 400]) },
            _ => {
                let n = rng.pick(&names).clone();
                Step::Apply(gen_gs(rng, &n))
            }
        });
    }
    // a re-list that is aborted half way (expired continue token) while the store keeps changing
    if !calm && rng.chance(1, 3) {
        let at = rng.usize_below(steps.len() + 1);
        let mut storm = vec![Step::ExpireContinue, if rng.chance(1, 2) { Step::GoneNow } else { Step::Compact }];
        if matches!(storm[1], Step::Compact) {
            storm.push(Step::DropWatch { how: rng.below(3) as u8 });
        }
        for _ in 0..rng.range(1, 3) {
            let n = rng.pick(&names).clone();
            storm.push(if rng.chance(1, 2) { Step::Delete { name: n } } else { Step::Apply(gen_gs(rng, &n)) });
        }
        for (k, s) in storm.into_iter().enumerate() {
            steps.insert(at + k, s);
        }
    }
    let busy = rng.chance(1, 2);
    let mut gaps_ms: Vec<u64> = steps.iter().map(|_| if busy && rng.chance(1, 2) { *rng.pick(&[1u64, 5, 40, 300, 1000, 2500]) } else { 0 }).collect();
    // a store change whose event reaches the adapter in the same read as the failure of the stream
    for i in 0..steps.len().saturating_sub(1) {
        if matches!(steps[i], Step::Apply(_) | Step::Delete { .. }) && matches!(steps[i + 1], Step::DropWatch { .. } | Step::GoneNow) && rng.chance(1, 2) {
            gaps_ms[i] = FUSED;
        }
    }
    C20Sc {
        seed: rng.next_u64(),
        page_size: *rng.pick(&[1u32, 2, 3, 500]),
        initial,
        early_steps: if rng.chance(1, 4) { rng.range(0, 3) as usize } else { 0 },
        steps,
        gaps_ms,
        via_config: false,
    }
}

fn apply_step(st: &mut ApiState, model: &mut BTreeMap<String, Gs>, step: &Step) -> bool {
    match step {
        Step::Apply(gs) => {
            st.apply(&gs.name, gs.to_json());
            model.insert(gs.name.clone(), gs.clone());
            true
        }
        Step::Delete { name } => {
            if model.remove(name).is_some() {
                st.delete(name);
            }
            true
        }
        Step::Bookmark => {
            st.bookmark();
            false
        }
        Step::DropWatch { how } => {
            st.drop_watches(*how);
            false
        }
        Step::Http500 { lists, watches } => {
            st.fail_lists = *lists;
            st.fail_watches = *watches;
            false
        }
        Step::Compact => {
            st.compact();
            false
        }
        Step::GoneNow => {
            st.gone_on_watches();
            false
        }
        Step::ExpireContinue => {
            st.expire_continue = true;
            false
        }
        Step::Latency { ms } => {
            st.latency_ms = *ms;
            false
        }
        Step::Chunked { on } => {
            st.chunked = *on;
            false
        }
        Step::DuplicateOnReconnect { on } => {
            st.duplicate_on_reconnect = *on;
            false
        }
        Step::Idle { .. } => false,
    }
}

const SETTLE_NS: u64 = 180_000_000_000;
/// `gaps_ms` value meaning "the next step follows at once, before the adapter task runs again"
pub const FUSED: u64 = 9_999;

pub fn run(sc: &C20Sc) -> RunReport {
    let mut rep = RunReport { runs: 1, ..Default::default() };
    // the liveness bound once faults stop: 180 s, plus the watcher's (jittered, capped at 30 s and doubled by the jitter)
    // back-off for every refused request of the longest outage in the history
    let outage = sc.steps.iter().map(|s| if let Step::Http500 { lists, watches } = s { u64::from(*lists + *watches) } else { 0 }).max().unwrap_or(0);
    let settle_ns = SETTLE_NS + outage * 60_000_000_000;
    let rt = new_runtime(sc.seed);
    let api: Api = Arc::new(Mutex::new(ApiState { chunk_rng: Some(Rng::new(sc.seed ^ 0xc4)), ..Default::default() }));
    let mut model: BTreeMap<String, Gs> = BTreeMap::new();
    {
        let mut st = api.lock().unwrap();
        for gs in &sc.initial {
            st.apply(&gs.name, gs.to_json());
            model.insert(gs.name.clone(), gs.clone());
        }
    }
    let mut trace = Fnv::default();
    let sim_ns = rt.block_on(async {
        let t0 = Instant::now();
        let now_ns = move || Instant::now().saturating_duration_since(t0).as_nanos() as u64;
        let api2 = api.clone();
        let service = tower::service_fn(move |req: http::Request<kube::client::Body>| {
            let api = api2.clone();
            apisim::handle(api, req, now_ns)
        });
        let client = kube::Client::new(service, "default");
        passage_adapters_agones::verif::set_client(Some(client));
        let cfg = watcher_config::Config { page_size: Some(sc.page_size), bookmarks: true, ..Default::default() };
        let built = if sc.via_config {
            let c = passage::config::DiscoveryAdapter::Agones(passage::config::AgonesDiscovery { namespace: Some("default".to_string()), ..Default::default() });
            passage::adapter::discovery::DynDiscoveryAdapter::from_config(c).await.map(Ad::App).map_err(|e| e.to_string())
        } else {
            AgonesDiscoveryAdapter::new(Some("default".to_string()), cfg).await.map(Ad::Direct).map_err(|e| e.to_string())
        };
        let adapter = match built {
            Ok(a) => a,
            Err(e) => {
                rep.violate("adapter_starts", format!("building the Agones discovery adapter failed: {e}"));
                return now_ns();
            }
        };
        passage_adapters_agones::verif::set_client(None);
        // the first `early_steps` steps land while the adapter is still paging through its initial list
        let early = sc.early_steps.min(sc.steps.len());
        let mut yrng = Rng::new(sc.seed ^ 0xea);
        for step in &sc.steps[..early] {
            for _ in 0..yrng.range(1, 6) {
                tokio::task::yield_now().await;
            }
            let mut st = api.lock().unwrap();
            if apply_step(&mut st, &mut model, step) {
                st.flush();
            }
            trace.write_str("early");
        }
        let mut steps: Vec<Option<&Step>> = vec![None];
        steps.extend(sc.steps[early..].iter().map(Some));
        // "at all times": what must be offered at every instant, settled or not - the servers that were
        // offerable at the last settle point and that no step has touched since; and what may be offered
        // at all - versions of a server that existed at some time
        let mut stable: BTreeMap<String, (String, BTreeMap<String, String>)> = BTreeMap::new();
        let mut ever: BTreeMap<String, Vec<(String, BTreeMap<String, String>)>> = BTreeMap::new();
        for g in sc.initial.iter().chain(sc.steps.iter().filter_map(|s| if let Step::Apply(g) = s { Some(g) } else { None })) {
            if let Some((n, a, m)) = g.expected() {
                ever.entry(n).or_default().push((a, m));
            }
        }
        for (si, step) in steps.iter().enumerate() {
            if let Some(step) = step {
                match step {
                    Step::Apply(g) => {
                        stable.remove(&g.name);
                    }
                    Step::Delete { name } => {
                        stable.remove(name);
                    }
                    _ => {}
                }
                let mut st = api.lock().unwrap();
                let mutated = apply_step(&mut st, &mut model, step);
                if mutated {
                    st.flush();
                }
                trace.write_str(match step {
                    Step::Apply(g) => if g.expected().is_some() { "apply_offerable" } else { "apply_other" },
                    Step::Delete { .. } => "delete",
                    Step::Bookmark => "bookmark",
                    Step::DropWatch { .. } => "drop",
                    Step::Http500 { .. } => "500",
                    Step::Compact => "compact",
                    Step::GoneNow => "gone",
                    Step::ExpireContinue => "expire",
                    Step::Latency { .. } => "latency",
                    Step::Chunked { .. } => "chunk",
                    Step::DuplicateOnReconnect { .. } => "dup",
                    Step::Idle { .. } => "idle",
                });
                drop(st);
                if let Step::Idle { s } = step {
                    // let time pass in 10 s slices so that watch timeouts are noticed
                    for _ in 0..(*s).div_ceil(10) {
                        tokio::time::sleep(Duration::from_secs(10.min(*s))).await;
                        let t = now_ns();
                        api.lock().unwrap().expire_watches(t);
                    }
                }
                // no settling after this step: the next one lands while the watcher is still busy
                let gap = sc.gaps_ms.get(early + si - 1).copied().unwrap_or(0);
                if gap == FUSED && si + 1 < steps.len() {
                    trace.write_str("fused");
                    *rep.probes.entry("step_fused_with_next".into()).or_insert(0) += 1;
                    continue;
                }
                if gap > 0 && si + 1 < steps.len() {
                    tokio::time::sleep(Duration::from_millis(gap)).await;
                    let t = now_ns();
                    let mut st = api.lock().unwrap();
                    st.expire_watches(t);
                    st.flush();
                    trace.write_str("busy");
                    *rep.probes.entry("step_without_settling".into()).or_insert(0) += 1;
                    continue;
                }
            }
            // settle: a watch is open and has been sent everything; bounded by 180 s of virtual time
            let start = now_ns();
            let mut settled = false;
            let mut waited = 0u64;
            loop {
                tokio::time::sleep(Duration::from_millis(if waited < 50 { 1 } else { 500 })).await;
                waited += 1;
                let t = now_ns();
                {
                    // unsettled instant: stable servers stay offered, nothing that never existed is offered
                    let got = adapter.discover().await.unwrap_or_default();
                    for (name, (addr, meta)) in &stable {
                        let hit = got.iter().any(|t| &t.identifier == name && &t.address.to_string() == addr && &t.meta.clone().into_iter().collect::<BTreeMap<_, _>>() == meta);
                        if !hit {
                            rep.violate(
                                "offered_at_all_times",
                                format!("after step #{si} ({:?}), {} ns into settling: {name} has been Ready/Allocated and untouched since the last settle point but is not offered as {addr} right now (offered: {:?})", step.map(brief), t - start, got.iter().map(|t| (&t.identifier, t.address)).collect::<Vec<_>>()),
                            );
                        }
                    }
                    for tg in &got {
                        let m: BTreeMap<String, String> = tg.meta.clone().into_iter().collect();
                        let known = ever.get(&tg.identifier).is_some_and(|vs| vs.iter().any(|(a, vm)| a == &tg.address.to_string() && vm == &m));
                        if !known {
                            rep.violate("offered_version_existed", format!("after step #{si}: {} is offered at {} with metadata {:?}, which no version of it ever had", tg.identifier, tg.address, m));
                        }
                    }
                    if !rep.violations.is_empty() {
                        break;
                    }
                    *rep.probes.entry("unsettled_instants_sampled".into()).or_insert(0) += 1;
                }
                {
                    let mut st = api.lock().unwrap();
                    st.expire_watches(t);
                    st.flush();
                    if st.caught_up() {
                        settled = true;
                    }
                }
                if settled {
                    // one more instant for the adapter task to drain what was just delivered
                    tokio::time::sleep(Duration::from_millis(2)).await;
                    if api.lock().unwrap().caught_up() {
                        break;
                    }
                    settled = false;
                }
                if t - start > settle_ns {
                    break;
                }
            }
            if !rep.violations.is_empty() {
                break;
            }
            if !settled {
                let st = api.lock().unwrap();
                rep.violate(
                    "settles_after_faults_stop",
                    format!("after step #{si} ({:?}) no watch caught up within 180 s of virtual time; last requests {:?}", step, st.requests.iter().rev().take(4).collect::<Vec<_>>()),
                );
                break;
            }
            // compare discover() with the store
            let got = adapter.discover().await.unwrap_or_default();
            let mut got_map: BTreeMap<String, Vec<(String, BTreeMap<String, String>)>> = BTreeMap::new();
            for t in &got {
                got_map.entry(t.identifier.clone()).or_default().push((t.address.to_string(), t.meta.clone().into_iter().collect()));
            }
            let want: BTreeMap<String, (String, BTreeMap<String, String>)> = model.values().filter_map(|g| g.expected()).map(|(n, a, m)| (n, (a, m))).collect();
            for (name, entries) in &got_map {
                if entries.len() > 1 {
                    rep.violate("offered_once", format!("after step #{si}: {name} is offered {} times", entries.len()));
                }
                match want.get(name) {
                    None => {
                        let why = match model.get(name) {
                            None => "it was deleted".to_string(),
                            Some(g) if g.state != "Ready" && g.state != "Allocated" => format!("its state is {}", g.state),
                            Some(g) => format!("its latest version cannot be offered (address {:?}, ports {:?})", g.address, g.ports),
                        };
                        rep.violate(
                            if model.contains_key(name) { "not_ready_not_offered" } else { "deleted_not_offered" },
                            format!("after step #{si} ({:?}): {name} is still offered at {} although {why}", step.map(brief), entries[0].0),
                        );
                    }
                    Some((addr, meta)) => {
                        if &entries[0].0 != addr {
                            rep.violate("current_address_and_port", format!("after step #{si}: {name} offered at {}, current address and first port are {addr}", entries[0].0));
                        } else if &entries[0].1 != meta {
                            rep.violate("current_metadata", format!("after step #{si}: {name} offered with metadata {:?}, current {:?}", entries[0].1, meta));
                        }
                    }
                }
            }
            for name in want.keys() {
                if !got_map.contains_key(name) {
                    rep.violate("ready_is_offered", format!("after step #{si} ({:?}): {name} is Ready/Allocated and convertible but not offered (offered: {:?})", step.map(brief), got_map.keys().collect::<Vec<_>>()));
                }
            }
            if !rep.violations.is_empty() {
                break;
            }
            stable = want.clone();
        }
        drop(adapter);
        tokio::time::sleep(Duration::from_millis(5)).await;
        now_ns()
    });
    drop(rt);
    let st = api.lock().unwrap();
    for (k, v) in &st.counters {
        *rep.faults.entry(k.clone()).or_insert(0) += v;
    }
    let faulty = ["watch_dropped_clean", "watch_dropped_io_error", "watch_dropped_mid_line", "http_500_on_list", "http_500_on_watch", "watch_gone_410_event", "continue_token_expired_410", "duplicate_delivery_after_reconnect"];
    rep.nontrivial = faulty.iter().any(|k| st.counters.contains_key(*k)) || sc.steps.iter().any(|s| matches!(s, Step::Delete { .. }));
    if st.counters.contains_key("watch_gone_410_event") && sc.steps.iter().any(|s| matches!(s, Step::Delete { .. })) {
        *rep.probes.entry("relist_after_delete".into()).or_insert(0) += 1;
    }
    trace.write_u64(st.counters.get("list_served").copied().unwrap_or(0));
    trace.write_u64(st.counters.get("watch_opened").copied().unwrap_or(0));
    rep.trace_hash = trace.0;
    let mut fh = Fnv::default();
    for r in &st.requests {
        fh.write_str(r);
    }
    fh.write_u64(sim_ns);
    fh.write_u64(rep.violations.len() as u64);
    rep.full_hash = fh.0;
    rep.sim_ns = sim_ns;
    rep
}

fn brief(s: &Step) -> String {
    match s {
        Step::Apply(g) => format!("Apply({} {} addr {:?} ports {:?})", g.name, g.state, g.address, g.ports),
        other => format!("{other:?}"),
    }
}

impl Check for C20 {
    type Sc = C20Sc;
    fn id(&self) -> &'static str {
        "C20"
    }
    fn level(&self) -> &'static str {
        "exploration"
    }
    fn rule_text(&self) -> String {
        "histories of up to 30 steps over 1-12 GameServers: create / replace with any of 11 Agones states, IPv4 / IPv6 / empty / host-name address, 0-2 ports, no status at all, counters (with null counts), lists, labels, annotations; delete; BOOKMARK; drop the watch (clean EOF, I/O error, mid-line); HTTP 500 on the next lists / watches; compaction (next resume gets ERROR 410 -> re-list); ERROR 410 on the open watch; expired continue token (HTTP 410) with page size 1-3 or 500; response latency up to 3 s; JSON lines cut at arbitrary chunk boundaries; duplicate delivery after reconnect; idle periods up to 400 s (watch timeouts); optionally the first steps land while the initial list is still being paged; in half of the histories about half of the steps are followed by only 1 ms - 2.5 s of virtual time instead of a settle point, so that changes and faults land while the watcher is re-listing, backing off or reconnecting, and a third of the non-calm histories contain an aborted re-list (expired continue token + 410 / compaction + drop) followed at once by deletions and updates. After every step the run settles (<= 180 s virtual) and discover() is compared with the simulated server's store. Non-trivial = a fault fired or an object was deleted; distinct = distinct hash of the step-kind sequence and list / watch request counts.".into()
    }
    fn assumptions(&self) -> Vec<String> {
        vec![
            "the simulated API server follows the Kubernetes list/watch contract as kube-runtime's watcher expects it (410 on watches is delivered as an in-stream ERROR event; HTTP 410 only for expired continue tokens)".into(),
            "at a settle point 'most recently observed' and 'current' coincide, so the oracle needs no model of partial lists; metadata key collisions between counters / lists / labels / annotations are not generated".into(),
        ]
    }
    fn components(&self) -> Value {
        json!({"real": ["AgonesDiscoveryAdapter (watch task, cache, discover)", "GameServer -> Target conversion", "kube::Client stack above the transport", "kube-runtime watcher + default_backoff (jitter seeded)"], "stub": ["Kubernetes API server (in-process tower service, hook H4 injects the client)"]})
    }
    fn count(&self, tier: Tier) -> u64 {
        match tier {
            Tier::Quick => 60_000,
            Tier::Thorough => 3_000_000,
        }
    }
    fn generate(&self, rng: &mut Rng, _index: u64, _tier: Tier) -> C20Sc {
        generate(rng)
    }
    fn execute(&self, sc: &C20Sc) -> RunReport {
        if sc.page_size == 0 || (sc.via_config && sc.page_size != 500) || sc.steps.len() > 200 || sc.gaps_ms.iter().any(|g| *g > 10_000 && *g != FUSED) || sc.initial.iter().chain(sc.steps.iter().filter_map(|s| if let Step::Apply(g) = s { Some(g) } else { None })).any(|g| g.name.is_empty()) {
            return RunReport::default();
        }
        run(sc)
    }
}
