//! Listener mode of the connection-level properties: several players log in through one real
//! `Listener` at (nearly) the same time, every player with an identity, an address and a discovery
//! answer of its own. Whatever a connection is told, offered or sent must be *its own*: an identity, a
//! candidate list or a chosen target that leaks from one connection into another (a cache shared by
//! the connections of a listener, a static, a pooled buffer) shows up as a mismatch.
//! C01 judges the identity rules, C03 the routing rules, with the same executions.

use super::c15::{v1_header, v2_header};
use super::common::*;
use crate::ccrypto::hmac_sha256;
use crate::client::ClientSpec;
use crate::net::{NetCfg, NetClient, NetOutcome, NetScenario, run_net};
use crate::rng::Rng;
use crate::runner::RunReport;
use crate::services::{AuthRes, DiscRes, FiltRes, PropSpec, Script, Services, StratRes};
use serde_json::{Value, json};
use std::net::{IpAddr, SocketAddr};

pub fn derived_identity(name: &str, uuid: u128) -> Identity {
    Identity { name: format!("v-{name}"), uuid: uuid ^ 0xffff_ffff_ffff_ffff, props: vec![PropSpec { name: "claimed".into(), value: name.to_string(), signature: None }] }
}

fn effective_of(sc: &NetScenario, i: usize) -> String {
    if sc.cfg.proxy.is_some() { format!("198.51.100.{}:{}", 10 + i, 50_000 + i) } else { sc.clients[i].peer.clone() }
}

fn cookie_identity(i: usize) -> Identity {
    Identity { name: format!("ck-player{i}"), uuid: 0xc00c_0000_0000_0000_0000_0000_0000_0000u128 + i as u128, props: vec![PropSpec { name: "textures".into(), value: format!("skin-of-{i}"), signature: Some(format!("sig{i}")) }] }
}

pub fn generate(rng: &mut Rng) -> NetScenario {
    let n = if rng.chance(1, 12) { rng.range(7, 14) } else { rng.range(2, 6) } as usize;
    let proxy = if rng.chance(1, 3) { Some((true, true)) } else { None };
    let secret: Option<Vec<u8>> = if rng.chance(3, 4) { Some(b"swarm-secret".to_vec()) } else { None };
    let lat = |rng: &mut Rng| *rng.pick(&[0u64, 0, 0, ms(1), ms(300), secs(2), secs(17)]);
    let services = Services {
        auth: Script::always(Some(*rng.pick(&[0u64, 0, ms(1), ms(500)])), AuthRes::Derived),
        discovery: Script::always(Some(lat(rng)), DiscRes::PerCall { n: rng.range(1, 4) as usize }),
        filter: Script::always(Some(lat(rng)), FiltRes::Identity),
        strategy: Script::always(Some(lat(rng)), StratRes::ByUser),
        ..Default::default()
    };
    let wall = crate::conn::Wall::default();
    let mut clients = vec![];
    // arrival: everybody within a second or two, some at the very same instant
    let mut t = 0u64;
    for i in 0..n {
        t += *rng.pick(&[0u64, 0, ms(1), ms(40), ms(400), ms(1100)]);
        let peer = format!("192.0.2.{}:{}", 10 + i, 40_000 + i);
        let intent = if rng.chance(1, 2) { 2 } else { 3 };
        let mut spec = ClientSpec::base(rng, intent);
        // (now and then somebody announces the name another connection announces as well - an impostor or a second
        // session; the UUIDs, addresses and shared secrets stay their own)
        spec.name = if i > 0 && rng.chance(1, 4) { format!("player{}", rng.below(i as u64)) } else { format!("player{i}") };
        spec.uuid = format!("{:032x}", 0x1000_0000_0000_0000_0000_0000_0000_0000u128 + ((i as u128) << 64) + u128::from(rng.next_u64()));
        spec.info_delay_ns = *rng.pick(&[0u64, 0, ms(3), ms(700)]);
        spec.coalesce = rng.chance(1, 2);
        spec.close_on_end_ns = Some(0);
        let effective = if proxy.is_some() { format!("198.51.100.{}:{}", 10 + i, 50_000 + i) } else { peer.clone() };
        // a returning player: a genuine cookie of its own
        if let (3, Some(sec)) = (intent, &secret)
            && rng.chance(1, 2)
        {
            let body = cookie_json(wall.base_s - rng.below(600), &effective, &cookie_identity(i), Some("earlier-target"));
            spec.auth_cookie = Some(signed_cookie(sec, &body));
        }
        // no secret configured: a cookie "signed" with the empty key (or any key) means nothing
        if intent == 3 && secret.is_none() && rng.chance(1, 2) {
            let body = cookie_json(wall.base_s - rng.below(600), &effective, &cookie_identity(i), Some("earlier-target"));
            spec.auth_cookie = Some(signed_cookie(if rng.chance(2, 3) { b"" } else { b"swarm-secret" }, &body));
        }
        if proxy.is_some() {
            let src: SocketAddr = effective.parse().unwrap();
            let dst: SocketAddr = "192.0.2.200:25565".parse().unwrap();
            spec.preamble = Some(if rng.chance(1, 2) { v1_header(&src, &dst) } else { v2_header(&src, &dst, false) });
        }
        clients.push(NetClient { connect_at_ns: t, peer, spec, wplan: vec![] });
    }
    // one player dawdles: it answers the Encryption Request only just before its deadline (10 s), so the deadline strikes
    // while the authentication service is being asked about it; somebody else logs in right after that
    let mut timeout_ns = secs(120);
    let mut services = services;
    if rng.chance(1, 6) && clients.len() >= 2 {
        timeout_ns = secs(10);
        services.auth.default.lat_ns = Some(ms(500));
        // (everybody else is through long before their own deadline)
        for l in [&mut services.discovery.default.lat_ns, &mut services.filter.default.lat_ns, &mut services.strategy.default.lat_ns] {
            *l = Some(l.unwrap_or(0).min(ms(300)));
        }
        let c0 = &mut clients[0];
        c0.connect_at_ns = 0;
        c0.spec.auth_cookie = None;
        c0.spec.login_think_ns = vec![0, secs(10) - ms(300)];
        let last = clients.len() - 1;
        clients[last].connect_at_ns = secs(10) + ms(rng.range(0, 400));
        clients[last].spec.auth_cookie = None;
        clients.sort_by_key(|c| c.connect_at_ns);
    }
    NetScenario {
        seed: rng.next_u64(),
        cfg: NetCfg { secret, expiry: None, max_frame: None, timeout_ns, proxy, limiter: None, use_start: false, agones: false, secret_source: None, localization_from_services: false },
        wall,
        services,
        clients,
        stop_at_ns: None,
        stop_before: false,
        yields_before_stop: 0,
        relisten: false,
        cap_ns: secs(200),
    }
}

/// The scenario is still one this oracle can judge (the shrinker may have altered it).
pub fn domain_ok(sc: &NetScenario) -> bool {
    let s = &sc.services;
    net_domain_ok(sc)
        && !sc.cfg.use_start
        && sc.cfg.limiter.is_none()
        && sc.stop_at_ns.is_none()
        && (sc.cfg.timeout_ns >= secs(120) || sc.cfg.timeout_ns == secs(10))
        && sc.cap_ns >= secs(200)
        && matches!(s.auth.default.res, AuthRes::Derived)
        && matches!(s.discovery.default.res, DiscRes::PerCall { n } if n >= 1)
        && matches!(s.filter.default.res, FiltRes::Identity)
        && matches!(s.strategy.default.res, StratRes::ByUser)
        && s.auth.calls.is_empty()
        && s.discovery.calls.is_empty()
        && s.filter.calls.is_empty()
        && s.strategy.calls.is_empty()
        && [s.auth.default.lat_ns, s.discovery.default.lat_ns, s.filter.default.lat_ns, s.strategy.default.lat_ns].iter().all(|l| l.is_some_and(|l| l <= secs(20)))
        && !sc.clients.is_empty()
        && sc.clients.iter().enumerate().all(|(i, c)| {
            let p = &c.spec;
            matches!(p.intent, 2 | 3)
                && p.name.strip_prefix("player").is_some_and(|d| d.parse::<usize>().is_ok_and(|j| j <= i))
                && p.script.is_none()
                && p.mutations.is_empty()
                && p.cuts.is_empty()
                && c.wplan.is_empty()
                && p.send_info
                && p.mute_after.is_none()
                && p.close_after.is_none()
                && p.extras.is_empty()
                && p.flood.is_none()
                && (p.login_think_ns.is_empty() || (sc.cfg.timeout_ns == secs(10) && c.connect_at_ns == 0 && p.login_think_ns == vec![0, secs(10) - ms(300)] && p.auth_cookie.is_none() && sc.clients.iter().filter(|o| !o.spec.login_think_ns.is_empty()).count() == 1))
                && p.ka.is_empty()
                && matches!(p.ka_default, crate::client::KaPolicy::Prompt)
                && matches!(p.enc, crate::client::EncVariant::Honest)
                && p.shared_secret.len() == 16
                && p.preamble.is_some() == sc.cfg.proxy.is_some()
                && p.info_delay_ns <= secs(5)
                && p.ack_delay_ns == 0
                && sc.clients.iter().filter(|o| o.spec.uuid == p.uuid).count() == 1
        })
        && sc.clients.iter().enumerate().all(|(i, c)| match (&c.spec.preamble, sc.cfg.proxy) {
            (Some(h), Some(_)) => {
                let src: SocketAddr = effective_of(sc, i).parse().unwrap();
                let dst: SocketAddr = "192.0.2.200:25565".parse().unwrap();
                *h == v1_header(&src, &dst) || *h == v2_header(&src, &dst, false)
            }
            (None, None) => true,
            _ => false,
        })
}

fn svc_events<'a>(out: &'a NetOutcome, svc: &str, kind: &str) -> Vec<&'a crate::world::Event> {
    out.log.iter().filter(|e| e.actor == svc && e.kind == kind).collect()
}

/// `identity`: judge the rules about who a connection is admitted as (C01); `routing`: the rules about
/// what it is offered and where it is sent (C03).
pub fn check_isolation(sc: &NetScenario, out: &NetOutcome, rep: &mut RunReport, identity: bool, routing: bool) {
    if !out.panics.is_empty() {
        rep.violate("no_panic", format!("panicked: {}", out.panics[0].replace('\n', " ")));
        return;
    }
    let disc_done = svc_events(out, "svc:discovery", "done");
    let filt_calls = svc_events(out, "svc:filter", "call");
    let filt_done = svc_events(out, "svc:filter", "done");
    let strat_calls = svc_events(out, "svc:strategy", "call");
    let strat_done = svc_events(out, "svc:strategy", "done");
    let auth_calls = svc_events(out, "svc:auth", "call");
    let mut used: std::collections::BTreeMap<u64, usize> = Default::default();
    for (i, (c, spec)) in out.clients.iter().zip(sc.clients.iter()).enumerate() {
        let me = effective_of(sc, i);
        let me_addr: SocketAddr = me.parse().unwrap();
        if let Some(u) = &c.view.undecodable {
            rep.violate("stream_decodes", format!("connection {i}: {u}"));
            return;
        }
        // who this connection has to be
        let t_cookie = c.view.sent.iter().filter(|s| s.kind == "CookieResponse").nth(1).map(|s| s.t_ns).unwrap_or(0);
        let by_cookie = cookie_accepted(spec.spec.intent, sc.cfg.secret.as_deref(), spec.spec.auth_cookie.as_deref(), &me, sc.wall.at(t_cookie), sc.cfg.expiry.unwrap_or(21_600));
        let expect = match &by_cookie {
            Some(ck) => ck.id.clone(),
            None => derived_identity(&spec.spec.name, spec.spec.uuid_u128()),
        };
        // (found by the claimed UUID, which is unique; names may be announced by more than one connection)
        let my_auth: Vec<&Value> = auth_calls.iter().filter(|e| e.detail["uuid"].as_str() == Some(&spec.spec.uuid) && e.detail["name"].as_str() == Some(&spec.spec.name)).map(|e| &e.detail).collect();
        let ls = c.view.first("LoginSuccess").and_then(|p| Some((p.fields["name"].as_str()?.to_string(), u128::from_str_radix(p.fields["uuid"].as_str()?, 16).ok()?)));
        if identity {
            match &ls {
                Some((n, u)) if *n != expect.name || *u != expect.uuid => rep.violate("connection_admitted_under_its_own_identity", format!("connection {i} (claims {}, {}) was sent Login Success for {n} / {u:032x}; the identity vouched for on this connection is {} / {:032x}", spec.spec.name, if by_cookie.is_some() { "genuine cookie" } else { "fresh authentication" }, expect.name, expect.uuid)),
                _ => {}
            }
            if by_cookie.is_none() && ls.is_some() && my_auth.len() != 1 {
                rep.violate("connection_authenticated_itself", format!("connection {i} (claims {}) was admitted, but the authentication service was asked about that claim {} times", spec.spec.name, my_auth.len()));
            }
            for a in &my_auth {
                if a["client_addr"].as_str().and_then(|s| s.parse::<SocketAddr>().ok()) != Some(me_addr) {
                    rep.violate("connection_authenticated_itself", format!("the authentication call for {} carries client address {}, the connection's is {me}", spec.spec.name, a["client_addr"]));
                }
            }
        }
        // routing facts of this connection, found by the (unique) UUID of the identity it has to have
        let eu = format!("{:032x}", expect.uuid);
        let my_filter: Vec<&Value> = filt_calls.iter().filter(|e| e.detail["name"].as_str() == Some(&expect.name) && e.detail["uuid"].as_str() == Some(&eu)).map(|e| &e.detail).collect();
        let my_strat: Vec<&Value> = strat_calls.iter().filter(|e| e.detail["name"].as_str() == Some(&expect.name) && e.detail["uuid"].as_str() == Some(&eu)).map(|e| &e.detail).collect();
        let transfer = c.view.first("Transfer");
        if !spec.spec.login_think_ns.is_empty() {
            continue; // the dawdler is cut off by its deadline; what it was told so far has been judged above
        }
        if routing {
            if transfer.is_none() {
                rep.violate("every_player_is_routed", format!("connection {i} ({}) got no Transfer: packets {:?}, server closed at {:?}", expect.name, c.view.kinds(), c.closed_ns));
                continue;
            }
            if my_filter.len() != 1 || my_strat.len() != 1 {
                rep.violate("connection_routed_on_its_own_facts", format!("connection {i} ({}): {} filter calls and {} strategy calls name this player", expect.name, my_filter.len(), my_strat.len()));
                continue;
            }
            let offered = &my_filter[0]["targets"];
            let from = disc_done.iter().find(|e| &e.detail["result"] == offered).map(|e| e.detail["i"].as_u64().unwrap_or(u64::MAX));
            match from {
                None => rep.violate("filters_offered_a_discovery_answer", format!("connection {i} ({}): the filters were offered {offered}, which no discovery call returned", expect.name)),
                Some(k) => {
                    if let Some(other) = used.insert(k, i) {
                        rep.violate("discovery_answer_belongs_to_one_connection", format!("the answer of discovery call #{k} was offered to the filters of connection {other} and of connection {i} ({}): one of them never asked discovery itself", expect.name));
                    }
                }
            }
            for d in [&my_filter[0], &my_strat[0]] {
                if d["client_addr"].as_str().and_then(|s| s.parse::<SocketAddr>().ok()) != Some(me_addr) {
                    rep.violate("connection_routed_on_its_own_facts", format!("a routing call for {} carries client address {}, the connection's is {me}", expect.name, d["client_addr"]));
                }
            }
            let fi = my_filter[0]["i"].clone();
            let fres = filt_done.iter().find(|e| e.detail["i"] == fi).map(|e| e.detail["result"].clone());
            if fres.as_ref() != Some(&my_strat[0]["targets"]) {
                rep.violate("strategy_gets_filter_output", format!("connection {i} ({}): filters returned {:?}, the strategy was offered {}", expect.name, fres, my_strat[0]["targets"]));
            }
            let si = my_strat[0]["i"].clone();
            let chosen = strat_done.iter().find(|e| e.detail["i"] == si).map(|e| e.detail["result"].clone()).unwrap_or(Value::Null);
            let t = transfer.unwrap();
            let want: Option<SocketAddr> = chosen["addr"].as_str().and_then(|a| a.parse().ok());
            let host: Option<IpAddr> = t.fields["host"].as_str().and_then(|h| h.parse().ok());
            if want.is_none() || host != want.map(|w| w.ip()) || t.fields["port"] != json!(want.map(|w| w.port())) {
                rep.violate("transfer_names_the_target_chosen_for_this_player", format!("connection {i} ({}): the strategy chose {chosen} for this player, the Transfer says {}", expect.name, t.fields));
            }
            // the issued cookie is this connection's own
            if let (Some(secret), None, Some(ck)) = (&sc.cfg.secret, &by_cookie, c.view.stored_bytes(AUTH_KEY)) {
                if ck.len() < 32 || hmac_sha256(secret, &ck[32..])[..] != ck[..32] {
                    rep.violate("issued_cookie_is_this_connections", format!("connection {i}: the tag of the issued cookie does not verify"));
                } else {
                    match parse_cookie_body(&ck[32..]) {
                        Some(p) if p.id == expect && p.addr == me_addr && p.target.as_deref() == chosen["id"].as_str() => {}
                        Some(p) => rep.violate("issued_cookie_is_this_connections", format!("connection {i} ({} at {me}, sent to {}): the issued cookie records {:?} at {} for target {:?}", expect.name, chosen["id"], p.id, p.addr, p.target)),
                        None => rep.violate("issued_cookie_is_this_connections", format!("connection {i}: the issued cookie body does not parse")),
                    }
                }
            }
        }
    }
    if routing && svc_events(out, "svc:discovery", "call").len() < filt_calls.len() {
        rep.violate("discovery_answer_belongs_to_one_connection", format!("{} connections reached the filters but discovery was asked only {} times", filt_calls.len(), svc_events(out, "svc:discovery", "call").len()));
    }
}

pub fn execute(sc: &NetScenario, identity: bool, routing: bool) -> RunReport {
    if !domain_ok(sc) {
        return RunReport::default();
    }
    let out = run_net(sc);
    let mut rep = RunReport { runs: 1, trace_hash: out.trace_hash(), full_hash: out.full_hash(), sim_ns: out.end_ns, ..Default::default() };
    rep.merge_counts(&out.faults, &out.probes);
    let mut h = crate::rng::Fnv(rep.trace_hash);
    h.write_str(&format!("{}|{:?}|{:?}", sc.clients.len(), sc.cfg.proxy, sc.clients.iter().map(|c| (c.spec.intent, c.spec.auth_cookie.is_some())).collect::<Vec<_>>()));
    rep.trace_hash = h.0;
    rep.nontrivial = sc.clients.len() >= 2;
    *rep.faults.entry("players_logging_in_through_one_listener".into()).or_insert(0) += sc.clients.len() as u64;
    // how many connections were in their routing phase at the same time as another one
    let calls: Vec<(u64, u64)> = out
        .log
        .iter()
        .filter(|e| e.actor == "svc:discovery" && e.kind == "call")
        .map(|e| e.t_ns)
        .zip(out.log.iter().filter(|e| e.actor == "svc:strategy" && e.kind == "done").map(|e| e.t_ns))
        .collect();
    let overlapping = calls.iter().enumerate().filter(|(i, a)| calls.iter().enumerate().any(|(j, b)| *i != j && a.0 <= b.1 && b.0 <= a.1)).count();
    if overlapping > 0 {
        *rep.probes.entry("routing_phases_overlapped".into()).or_insert(0) += overlapping as u64;
    }
    check_isolation(sc, &out, &mut rep, identity, routing);
    rep
}
