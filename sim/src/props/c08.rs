//! C08 - connection behaviour is independent of segmentation and completion timing.
//! Differential: the same client program and services are run once with every frame delivered in
//! one piece and every write accepted whole (reference execution), and once under a transport
//! fault plan (variant). After masking values that legitimately differ between two executions the
//! clientbound packets, the service call log and the result class must be identical.

use super::common::*;
use crate::client::{Body, ClientSpec, Cut, Extra, KaId};
use crate::conn::{ConnCfg, ConnOutcome, ConnScenario, Wall, run_conn};
use crate::pipe::{Gate, PipeState, WRule};
use crate::rng::Rng;
use crate::runner::{Check, RunReport, Tier};
use crate::services::{DiscRes, FiltRes, Script, Services, StratRes};
use serde::{Deserialize, Serialize};
use serde_json::{Value, json};

pub struct C08;

const PERIOD: u64 = 16_000_000_000;
/// upper bound on any single pause / write block, so that a promptly echoing client stays prompt
const MAX_PAUSE: u64 = 5_000_000_000;

#[derive(Clone, Debug, Serialize, Deserialize, PartialEq)]
pub struct C08Sc {
    /// the base scenario; its `client.cuts` and `wplan` are the variant's fault plan
    pub sc: ConnScenario,
    /// listener mode: the same clients through a real `Listener` with PROXY protocol, whose byte streams (header
    /// included) are cut and delayed; the reference is the same scenario uncut
    #[serde(default)]
    pub listener: Option<Box<crate::net::NetScenario>>,
}

fn masked_packets(out: &ConnOutcome) -> Vec<Value> {
    out.view
        .packets
        .iter()
        .filter(|p| p.kind != "KeepAlive")
        .map(|p| {
            let mut f = p.fields.clone();
            match p.kind.as_str() {
                "EncryptionRequest" => {
                    f["verify_token"] = json!("<token>");
                }
                "StoreCookie" => {
                    let payload = crate::world::unhex(f["payload"].as_str().unwrap_or(""));
                    if f["key"] == json!(SESSION_KEY) {
                        let mut v: Value = serde_json::from_slice(&payload).unwrap_or(Value::Null);
                        if v.is_object() {
                            v["id"] = json!("<session>");
                            v["trace_id"] = json!("<trace>");
                        }
                        f["payload"] = v;
                    } else if payload.len() >= 32 {
                        let mut v: Value = serde_json::from_slice(&payload[32..]).unwrap_or(Value::Null);
                        if v.is_object() {
                            v["timestamp"] = json!("<time>");
                        }
                        f["payload"] = v;
                    }
                }
                _ => {}
            }
            json!({"kind": p.kind, "fields": f})
        })
        .collect()
}

fn service_calls(out: &ConnOutcome) -> Vec<Value> {
    out.log
        .iter()
        .filter(|e| e.actor.starts_with("svc:") && e.actor != "svc:localization")
        .map(|e| json!({"actor": e.actor, "kind": e.kind, "detail": e.detail}))
        .collect()
}

/// Virtual time at which the server handed the first byte of the first packet of this kind to the transport.
fn first_write_of(out: &ConnOutcome, kind: &str) -> Option<u64> {
    let idx = out.view.packets.iter().position(|p| p.kind == kind)?;
    let off: usize = out.view.packets[..idx].iter().map(|p| p.len + crate::codec::varint(p.len as i32).len()).sum();
    let mut acc = 0usize;
    for (t, chunk) in &out.pipe.out {
        if acc + chunk.len() > off {
            return Some(*t);
        }
        acc += chunk.len();
    }
    None
}

fn reference_of(sc: &ConnScenario) -> ConnScenario {
    let mut r = sc.clone();
    r.client.cuts.clear();
    r.wplan.clear();
    r.client.coalesce = false;
    // (a length prefix with padding groups is the same frame: the undisturbed execution is the one with minimal prefixes)
    r.client.len_pad = 0;
    r.client.eof_delay_ns = 0;
    r
}

fn total_pause(sc: &ConnScenario) -> u64 {
    let mut t = 0u64;
    for c in &sc.client.cuts {
        t = t.saturating_add(match &c.gate {
            Gate::Now => 0,
            Gate::Delay { ns } => *ns,
            Gate::Abs { .. } | Gate::Event { .. } => MAX_PAUSE,
        });
    }
    for w in &sc.wplan {
        t = t.saturating_add(match w {
            WRule::Pend { ns } => *ns,
            WRule::PendEvent { .. } => MAX_PAUSE,
            _ => 0,
        });
    }
    t
}

/// The variant keeps the reference outcome "the specified one" only if every keep-alive echo was
/// available to the server well before the next keep-alive was due.
/// The scenario of the tie mode as generated: every echo exactly one period late, zero-time cuts only.
fn tie_mode(sc: &ConnScenario) -> bool {
    matches!(sc.client.ka_default, crate::client::KaPolicy::Delay { ns } if ns == PERIOD) && sc.wplan.is_empty() && !sc.client.cuts.is_empty() && sc.client.cuts.iter().all(|c| matches!(c.gate, Gate::Now) && c.spurious <= 1) && sc.prelude.is_empty()
}

fn precondition(out: &ConnOutcome, sc: &ConnScenario) -> bool {
    let pend: u64 = out.pipe.write_blocked_total_ns;
    // a gate on an event that never happened in this execution is a permanent stall, not a pause
    for c in &sc.client.cuts {
        if let Gate::Event { name, .. } = &c.gate
            && !out.signals.contains_key(name)
        {
            return false;
        }
    }
    for w in &sc.wplan {
        if let WRule::PendEvent { name, .. } = w
            && !out.signals.contains_key(name)
        {
            return false;
        }
    }
    let kas = out.view.all("KeepAlive");
    let echoes: Vec<_> = out.view.sent.iter().filter(|s| s.kind == "KeepAliveEcho").collect();
    for (i, ka) in kas.iter().enumerate() {
        let Some(e) = echoes.get(i) else {
            // the client had no chance to echo (connection ended first) - fine
            continue;
        };
        let Some(a) = PipeState::avail_at(&out.pipe.avail, e.end) else {
            return false;
        };
        if a == u64::MAX || a.saturating_sub(ka.t_ns).saturating_add(pend) + 1_000_000_000 >= PERIOD {
            return false;
        }
    }
    // gates that never resolved keep bytes back forever: not a schedule the reference outcome survives
    !out.pipe.avail.iter().any(|(_, t)| *t == u64::MAX)
}

fn gen_base(rng: &mut Rng) -> ConnScenario {
    let ntargets = *rng.pick(&[0usize, 1, 2]);
    let lat = |rng: &mut Rng| -> u64 {
        match rng.below(6) {
            0 | 1 => 0,
            2 => ms(rng.range(1, 3000)),
            _ => ms(rng.range(1000, 40_000)),
        }
    };
    let services = Services {
        auth: Script::always(
            Some(if rng.chance(1, 3) { ms(rng.range(1, 20_000)) } else { 0 }),
            if rng.chance(1, 2) { crate::services::AuthRes::Claim } else { crate::services::AuthRes::Profile { name: format!("Real{}", rng.below(100)), uuid: format!("{:032x}", gen_uuid(rng)), props: gen_props(rng) } },
        ),
        discovery: Script::always(Some(lat(rng)), DiscRes::Targets((0..ntargets).map(|i| gen_target(rng, i)).collect())),
        filter: Script::always(Some(lat(rng)), FiltRes::Identity),
        strategy: Script::always(Some(lat(rng)), StratRes::First),
        ..Default::default()
    };
    let intent = if rng.chance(1, 2) { 2 } else { 3 };
    let mut client = ClientSpec::base(rng, intent);
    client.info = gen_info(rng);
    client.info_delay_ns = match rng.below(4) {
        0 => 0,
        1 => ms(rng.range(1, 2000)),
        _ => ms(rng.range(2000, 30_000)),
    };
    // long frames in the configuration phase: a 2-byte length prefix can be cut in the middle
    for _ in 0..rng.below(4) {
        let big = rng.chance(1, 2);
        let blen = if big { rng.range(130, 400) as usize } else { rng.range(0, 40) as usize };
        client.extras.push(Extra {
            after_ack: true,
            at_ns: ms(rng.range(1, 60_000)),
            id: *rng.pick(&[0x02, 0x01, 0x02]),
            body: Body::Raw { bytes: rng.bytes(blen) },
        });
    }
    // a really large (still legal) frame with another one right behind it: buffers grow, and may be swapped or shrunk
    if rng.chance(1, 6) {
        let at = ms(rng.range(1, 20_000));
        let blen = rng.range(3_000, 9_500) as usize;
        client.extras.push(Extra { after_ack: true, at_ns: at, id: 0x02, body: Body::Raw { bytes: { let mut b = b"\x12minecraft:register".to_vec(); b.resize(blen, 0x61); b } } });
        client.extras.push(Extra { after_ack: true, at_ns: at, id: 0x02, body: Body::Raw { bytes: b"\x0fminecraft:brand\x07vanilla".to_vec() } });
    }
    if rng.chance(1, 4) {
        client.extras.push(Extra {
            after_ack: true, at_ns: ms(rng.range(1, 60_000)), id: 0x04, body: Body::KeepAlive { id: KaId::Fixed(rng.next_u64()) } });
    }
    // a client that pipelines Login Acknowledged (and its configuration frames) behind the Encryption Response
    if rng.chance(1, 6) {
        client.early_ack = true;
    }
    // a client that never echoes: the reference outcome is the timeout, whatever the transport does
    if rng.chance(1, 6) {
        client.ka_default = crate::client::KaPolicy::Never;
    }
    // a long session cookie makes a long login-phase frame too
    if rng.chance(1, 3) {
        client.session_cookie = Some(
            serde_json::to_vec(&json!({"id": uuid_hyph(gen_uuid(rng)), "server_address": "h".repeat(rng.range(1, 200) as usize), "server_port": 7, "trace_id": null})).unwrap(),
        );
    }
    let secret = if rng.chance(1, 2) { Some(rng.bytes(16)) } else { None };
    let client_addr = gen_addr(rng);
    // a returning player: a valid authentication cookie makes a long login-phase frame and another path
    if let (3, Some(sec)) = (intent, &secret)
        && rng.chance(1, 3)
    {
        let id = Identity { name: format!("Cookie{}", rng.below(100)), uuid: gen_uuid(rng), props: gen_props(rng) };
        let body = cookie_json(Wall::default().base_s - rng.below(3600), &client_addr, &id, Some("old-target"));
        client.auth_cookie = Some(signed_cookie(sec, &body));
    }
    ConnScenario {
        seed: rng.next_u64(),
        cfg: ConnCfg { secret, expiry: None, max_frame: None, client_addr },
        wall: Wall::default(),
        services,
        client,
        wplan: vec![],
        cap_ns: secs(1200),
        prelude: vec![],
        growth: None,
    }
}

fn gen_gate(rng: &mut Rng, frame_t: u64, events: &[(String, u64)]) -> Gate {
    match rng.below(8) {
        0 => Gate::Now,
        1 => Gate::Delay { ns: 1_000 },
        2 => Gate::Delay { ns: ms(1) },
        3 => Gate::Delay { ns: ms(rng.range(2, 4000)) },
        4 | 5 => {
            // straddle the next keep-alive tick if it is close enough
            let next_tick = (frame_t / PERIOD + 1) * PERIOD;
            if next_tick - frame_t < MAX_PAUSE - ms(10) {
                Gate::Abs { ns: next_tick + *rng.pick(&[0u64, 1, 1_000_000]) }
            } else {
                Gate::Delay { ns: ms(rng.range(1, 2000)) }
            }
        }
        _ => {
            // straddle the next service completion if it is close enough
            match events.iter().find(|(_, t)| *t >= frame_t && *t - frame_t < MAX_PAUSE - ms(10)) {
                Some((name, _)) => Gate::Event { name: name.clone(), ns: *rng.pick(&[0u64, 1, 1_000_000]) },
                None => Gate::Delay { ns: ms(rng.range(1, 2000)) },
            }
        }
    }
}

fn generate(rng: &mut Rng, index: u64) -> C08Sc {
    let mut sc = gen_base(rng);
    // learn the frame layout and event times from the reference execution
    let refo = run_conn(&sc);
    let frames = refo.view.sent.clone();
    let mut events: Vec<(String, u64)> = vec![];
    for name in ["auth_done", "discovery_done", "filter_done", "strategy_done"] {
        if let Some(e) = refo.log.iter().find(|e| e.actor == format!("svc:{}", name.trim_end_matches("_done")) && e.kind == "done") {
            events.push((name.to_string(), e.t_ns));
        }
    }
    events.sort_by_key(|e| e.1);
    if frames.is_empty() {
        return C08Sc { sc, listener: None };
    }
    let mode = index % 4;
    sc.client.coalesce = rng.chance(1, 2);
    match mode {
        // enumerated: one cut at (frame, offset) chosen by index
        0 | 1 => {
            let total: u64 = frames.iter().map(|f| f.end - f.start - 1).sum::<u64>().max(1);
            let mut k = (index / 4) % total;
            for f in &frames {
                let n = f.end - f.start - 1;
                if k < n {
                    let gate = gen_gate(rng, f.t_ns, &events);
                    sc.client.cuts.push(Cut { at: f.start + 1 + k, gate, spurious: rng.below(2) as u8 });
                    break;
                }
                k -= n;
            }
        }
        // random multi-cut plans, including one-byte-at-a-time frames
        2 => {
            for _ in 0..rng.range(1, 5) {
                let f = rng.pick(&frames).clone();
                if rng.chance(1, 4) {
                    for o in f.start + 1..f.end {
                        sc.client.cuts.push(Cut { at: o, gate: if rng.chance(1, 2) { Gate::Now } else { Gate::Delay { ns: 1_000 } }, spurious: rng.below(2) as u8 });
                    }
                } else {
                    let at = rng.range(f.start, f.end - 1);
                    let gate = gen_gate(rng, f.t_ns, &events);
                    sc.client.cuts.push(Cut { at, gate, spurious: rng.below(3) as u8 });
                }
            }
        }
        // a write fault aimed at one Keep Alive: the frame is accepted only in part and the rest is held back
        // until the service that is running at that moment completes (the keep-alive future is dropped
        // mid-write), or for a while
        _ if index % 8 == 7 && refo.view.first("KeepAlive").is_some() => {
            // (for a client that is timed out, the timeout Disconnect is such a frame too - and the likeliest pick)
            let mut kas: Vec<usize> = refo.view.packets.iter().enumerate().filter(|(_, p)| p.kind == "KeepAlive").map(|(i, _)| i).collect();
            if refo.result == "MissedKeepAlive"
                && let Some(d) = refo.view.packets.iter().position(|p| p.kind == "Disconnect")
            {
                for _ in 0..kas.len().max(1) {
                    kas.push(d);
                }
            }
            let ki = *rng.pick(&kas);
            let off: usize = refo.view.packets[..ki].iter().map(|p| p.len + crate::codec::varint(p.len as i32).len()).sum();
            // the write call that carries this frame in the reference execution (every write is accepted whole there)
            let mut acc = 0usize;
            let mut call = 0usize;
            for (_, chunk) in &refo.pipe.out {
                if acc + chunk.len() > off {
                    break;
                }
                acc += chunk.len();
                call += 1;
            }
            for _ in 0..call {
                sc.wplan.push(WRule::Accept { max: 1_000_000 });
            }
            // (sometimes not a single byte of the frame is taken before the hold)
            if rng.chance(2, 3) {
                sc.wplan.push(WRule::Accept { max: rng.range(1, 9) as usize });
            }
            let t_ka = refo.view.packets[ki].t_ns;
            match events.iter().find(|(_, t)| *t > t_ka && *t - t_ka < MAX_PAUSE - ms(10)) {
                Some((name, _)) if rng.chance(3, 4) => sc.wplan.push(WRule::PendEvent { name: name.clone(), ns: *rng.pick(&[0u64, 1_000_000]) }),
                _ => sc.wplan.push(WRule::Pend { ns: ms(rng.range(1, 3000)) }),
            }
        }
        // write-acceptance plans (alone or with cuts)
        _ => {
            if rng.chance(1, 2) {
                let f = rng.pick(&frames).clone();
                let at = rng.range(f.start, f.end - 1);
                let gate = gen_gate(rng, f.t_ns, &events);
                sc.client.cuts.push(Cut { at, gate, spurious: 0 });
            }
            let mut budget = MAX_PAUSE;
            for _ in 0..rng.range(1, 12) {
                sc.wplan.push(match rng.below(7) {
                    0 => WRule::Accept { max: 1 },
                    1 => WRule::Accept { max: rng.range(1, 12) as usize },
                    2 => WRule::Spurious,
                    3 => {
                        let ns = ms(rng.range(1, 1500)).min(budget);
                        budget -= ns;
                        if ns == 0 { WRule::Spurious } else { WRule::Pend { ns } }
                    }
                    4 => match events.first() {
                        Some((name, _)) if budget >= MAX_PAUSE => {
                            budget = 0;
                            WRule::PendEvent { name: name.clone(), ns: *rng.pick(&[0u64, 1_000_000]) }
                        }
                        _ => WRule::Accept { max: 3 },
                    },
                    _ => WRule::Accept { max: 100_000 },
                });
            }
        }
    }
    // an earlier connection of the same process that ended abruptly with output still queued
    if index % 7 == 6 {
        let mut base = sc.clone();
        base.client.cuts.clear();
        base.wplan.clear();
        sc.prelude = vec![abrupt_prelude(rng, &base)];
    }
    // a dozen small configuration frames sent at one instant: one read each in the undisturbed execution, all in one
    // read in the variant
    if rng.chance(1, 12) {
        let at = ms(5 + rng.below(2000));
        for k in 0..rng.range(9, 16) {
            let mut b = b"\x0fminecraft:brand".to_vec();
            b.extend_from_slice(format!("-{k}").as_bytes());
            sc.client.extras.push(crate::client::Extra { after_ack: true, at_ns: at, id: 0x02, body: Body::Raw { bytes: b } });
        }
        sc.client.coalesce = true;
    }
    // an echo that arrives at the very instant the next Keep Alive is due - whole in the undisturbed execution, one byte at a
    // time (at that same instant) in the variant: whichever way such a tie is decided, it is decided the same way
    if rng.chance(1, 16) {
        sc.client.ka_default = crate::client::KaPolicy::Delay { ns: PERIOD };
        sc.client.cuts = (300..700u64).map(|o| Cut { at: o, gate: Gate::Now, spurious: u8::from(o % 2 == 0) }).collect();
        sc.client.coalesce = false;
        sc.wplan.clear();
        sc.prelude.clear();
        sc.services.discovery.default.lat_ns = Some(secs(*rng.pick(&[20u64, 40, 70])));
    }
    // a client that hangs up in the middle: in the variant the hang-up is reported by the server's next write (BrokenPipe)
    // while the end of stream reaches the reader only 20 s later - however it is noticed, the outcome is the same
    if rng.chance(1, 12) {
        sc.client.close_after = Some((rng.range(4, 7) as usize, false));
        sc.client.cuts.clear();
        sc.wplan = vec![WRule::BrokenOncePeerClosed];
        sc.client.eof_delay_ns = secs(20);
        sc.client.ka_default = crate::client::KaPolicy::Prompt;
        sc.prelude.clear();
    }
    // frames whose length prefix carries padding groups (fixed-width prefixes as some proxies write them)
    if rng.chance(1, 6) {
        sc.client.len_pad = rng.range(1, 3) as u8;
    }
    C08Sc { sc, listener: None }
}

fn gen_listener(rng: &mut Rng) -> crate::net::NetScenario {
    use crate::net::{NetCfg, NetClient, NetScenario};
    use super::c15::{v1_header, v2_header};
    let proxy = *rng.pick(&[(true, true), (true, true), (true, false), (false, true)]);
    let services = Services {
        discovery: Script::always(Some(*rng.pick(&[0u64, 0, ms(300)])), DiscRes::Targets(vec![gen_target(rng, 0)])),
        ..Default::default()
    };
    let n = rng.range(1, 2);
    // the deadline applies to the wait for the header and to the exchange after it, each on its own: a header that takes
    // most of the time allowed and an exchange that takes most of the time allowed are both in time
    let timeout = secs(*rng.pick(&[60u64, 60, 8, 4]));
    let clients = (0..n)
        .map(|i| {
            let intent = *rng.pick(&[1, 1, 2, 3]);
            let mut spec = ClientSpec::base(rng, intent);
            let src: std::net::SocketAddr = format!("198.51.100.{}:{}", 70 + i, 52_000 + i).parse().unwrap();
            let dst: std::net::SocketAddr = "192.0.2.200:25565".parse().unwrap();
            let h = if proxy.0 && (!proxy.1 || rng.chance(1, 2)) { v1_header(&src, &dst) } else { v2_header(&src, &dst, false) };
            let hl = h.len() as u64;
            spec.preamble = Some(h);
            spec.close_on_end_ns = Some(0);
            spec.coalesce = rng.chance(1, 2);
            // cuts anywhere in the header and the first frames
            for _ in 0..rng.range(1, 4) {
                let at = if rng.chance(2, 3) { rng.range(1, hl - 1) } else { rng.range(hl, hl + 60) };
                let gate = match rng.below(5) {
                    0 => Gate::Now,
                    1 => Gate::Delay { ns: 1_000 },
                    2 => Gate::Delay { ns: ms(rng.range(1, 900)) },
                    3 => Gate::Delay { ns: timeout / 100 * rng.range(30, 80) },
                    _ => Gate::Delay { ns: ms(rng.range(1000, 4000)) },
                };
                spec.cuts.push(Cut { at, gate, spurious: rng.below(2) as u8 });
            }
            // keep each phase within 85 % of the time it is allowed (later delays of a phase that is over budget are dropped)
            let (mut in_header, mut after) = (0u64, 0u64);
            spec.cuts.sort_by_key(|c| c.at);
            for c in spec.cuts.iter_mut() {
                if let Gate::Delay { ns } = c.gate {
                    let sum = if c.at < hl { &mut in_header } else { &mut after };
                    if *sum + ns > timeout / 100 * 85 {
                        c.gate = Gate::Now;
                    } else {
                        *sum += ns;
                    }
                }
            }
            NetClient { connect_at_ns: ms(rng.range(0, 2000)), peer: format!("10.3.0.{}:{}", 1 + i, 44_000 + i), spec, wplan: vec![] }
        })
        .collect();
    NetScenario {
        seed: rng.next_u64(),
        cfg: NetCfg { timeout_ns: timeout, proxy: Some(proxy), ..Default::default() },
        wall: Default::default(),
        services,
        clients,
        stop_at_ns: None,
        stop_before: false,
        yields_before_stop: 0,
        relisten: false,
        cap_ns: secs(120),
    }
}

/// Time the cuts of a client add before the PROXY header is complete / after it.
fn phase_delays(k: &crate::net::NetClient) -> (u64, u64) {
    let hl = k.spec.preamble.as_ref().map(|p| p.len() as u64).unwrap_or(0);
    let (mut a, mut b) = (0u64, 0u64);
    for x in &k.spec.cuts {
        let ns = match &x.gate {
            Gate::Now => 0,
            Gate::Delay { ns } => *ns,
            _ => MAX_PAUSE * 100,
        };
        if x.at < hl {
            a = a.saturating_add(ns);
        } else {
            b = b.saturating_add(ns);
        }
    }
    (a, b)
}

/// Listener mode: what each client is sent must not depend on how its bytes (PROXY header included) were cut.
fn run_listener(n: &crate::net::NetScenario) -> RunReport {
    let c = &n.cfg;
    if !net_domain_ok(n) || c.use_start || c.proxy.is_none() || c.limiter.is_some() || n.stop_at_ns.is_some() || c.timeout_ns < secs(4) || n.cap_ns < secs(60) || n.clients.is_empty() || n.services.discovery.default.lat_ns.is_none_or(|l| l > ms(300))
        || !matches!(&n.services.discovery.default.res, DiscRes::Targets(t) if !t.is_empty())
        || n.clients.iter().any(|k| {
            let (d1, d2) = phase_delays(k);
            let total = if d1 > c.timeout_ns / 100 * 85 || d2 > c.timeout_ns / 100 * 85 { u64::MAX } else { 0 };
            !matches!(k.spec.intent, 1..=3) || k.spec.script.is_some() || !k.spec.mutations.is_empty() || !k.wplan.is_empty() || k.spec.preamble.is_none() || k.spec.mute_after.is_some() || k.spec.close_after.is_some() || !k.spec.send_info || !matches!(k.spec.enc, crate::client::EncVariant::Honest) || k.spec.shared_secret.len() != 16 || k.spec.protocol <= 0 || total > secs(20) || k.spec.info_delay_ns != 0 || k.spec.ack_delay_ns != 0 || k.spec.ping_delay_ns != 0 || !k.spec.login_think_ns.is_empty()
        })
    {
        return RunReport::default();
    }
    let mut plain = n.clone();
    for k in &mut plain.clients {
        k.spec.cuts.clear();
        k.spec.coalesce = false;
    }
    let refo = crate::net::run_net(&plain);
    let var = crate::net::run_net(n);
    let mut rep = RunReport { runs: 2, trace_hash: var.trace_hash(), full_hash: var.full_hash().rotate_left(13) ^ refo.full_hash(), sim_ns: var.end_ns + refo.end_ns, nontrivial: true, ..Default::default() };
    rep.merge_counts(&var.faults, &var.probes);
    *rep.faults.entry("proxy_header_cut_through_a_listener".into()).or_insert(0) += 1;
    for o in [&refo, &var] {
        if !o.panics.is_empty() {
            rep.violate("no_panic", format!("panicked: {}", o.panics[0].replace('\n', " ")));
            return rep;
        }
    }
    for (i, (a, b)) in refo.clients.iter().zip(var.clients.iter()).enumerate() {
        if a.view.undecodable.is_some() || a.view.packets.is_empty() {
            continue; // the uncut client itself is not served: nothing to compare against
        }
        if let Some(u) = &b.view.undecodable {
            rep.violate("frames_arrive_complete", format!("client {i}: {u}"));
            continue;
        }
        let kinds = |v: &crate::client::ClientView| v.packets.iter().filter(|p| p.kind != "KeepAlive").map(|p| (p.kind.clone(), p.len)).collect::<Vec<_>>();
        if kinds(&a.view) != kinds(&b.view) {
            rep.violate("same_packets", format!("client {i} (PROXY header and frames cut {:?}): uncut it is sent {:?}, cut {:?}", n.clients[i].spec.cuts.iter().map(|x| x.at).collect::<Vec<_>>(), a.view.kinds(), b.view.kinds()));
        }
    }
    rep
}

pub fn compare(sc: &ConnScenario, refo: &ConnOutcome, var: &ConnOutcome, rep: &mut RunReport) {
    for (o, w) in [(refo, "reference"), (var, "variant")] {
        if !o.panics.is_empty() {
            rep.violate("no_panic", format!("{w} execution panicked: {}", o.panics[0]));
            return;
        }
    }
    if refo.view.undecodable.is_some() || refo.result == "Hung" {
        return; // the base scenario itself is not a well-behaved client: nothing to compare against
    }
    // a client that never echoes is timed out at a fixed tick; how far routing got by then depends on
    // timing, so only the packets and the result are compared, and only if the reference was timed out
    let silent = matches!(sc.client.ka_default, crate::client::KaPolicy::Never);
    if silent && refo.result != "MissedKeepAlive" {
        return;
    }
    // (and only if the unanswered Keep Alive went out at the same tick in both executions: a pause that moves
    // the start of the configuration phase across a tick moves the whole keep-alive schedule with it)
    if silent && first_write_of(refo, "KeepAlive") != first_write_of(var, "KeepAlive") {
        *rep.probes.entry("silent_client_keep_alive_schedule_moved_skipped".into()).or_insert(0) += 1;
        return;
    }
    if tie_mode(sc) {
        *rep.faults.entry("echo_at_the_instant_the_next_keep_alive_is_due".into()).or_insert(0) += 1;
        if let Some(u) = &var.view.undecodable {
            rep.violate("frames_arrive_complete", format!("client cannot decode the server's byte stream in the variant: {u}"));
            return;
        }
        let (rp, vp) = (masked_packets(refo), masked_packets(var));
        if rp != vp || refo.result != var.result {
            rep.violate("same_outcome", format!("an echo arriving at the instant the next Keep Alive is due: delivered whole the connection goes {:?} and ends {}, delivered byte by byte at the same instant it goes {:?} and ends {}", refo.view.kinds(), refo.result, var.view.kinds(), var.result));
        }
        return;
    }
    if sc.wplan.iter().any(|w| matches!(w, WRule::BrokenOncePeerClosed)) {
        // (what the client was sent before it left is not compared: it is gone)
        if sc.client.close_after.is_none() || sc.client.eof_delay_ns == 0 || sc.wplan.len() != 1 || !sc.client.cuts.is_empty() {
            return; // not the scenario as generated
        }
        *rep.faults.entry("hang_up_noticed_by_a_write_instead_of_the_read".into()).or_insert(0) += u64::from(var.faults.contains_key("write_after_the_peer_hung_up"));
        // (only where the undisturbed execution itself ends with the client's hang-up: a server that had finished before it
        // noticed, or whose final write is what fails, legitimately ends otherwise)
        if refo.result == "ConnectionClosed" && refo.result != var.result {
            rep.violate("same_outcome", format!("a client that hangs up after {} frames: noticed by the read the connection ends {}, noticed by the next write it ends {} {}", sc.client.close_after.map(|c| c.0).unwrap_or(0), refo.result, var.result, var.result_text));
        }
        return;
    }
    if !precondition(var, sc) {
        *rep.probes.entry("precondition_not_met_skipped".into()).or_insert(0) += 1;
        return;
    }
    if let Some(u) = &var.view.undecodable {
        rep.violate("frames_arrive_complete", format!("client cannot decode the server's byte stream in the variant: {u}"));
        return;
    }
    if var.view.partial_at_eof != 0 {
        rep.violate("frames_arrive_complete", format!("{} bytes of an incomplete frame at the end of the variant's stream", var.view.partial_at_eof));
        return;
    }
    let (rp, vp) = (masked_packets(refo), masked_packets(var));
    if rp != vp {
        let at = rp.iter().zip(vp.iter()).position(|(a, b)| a != b).unwrap_or(rp.len().min(vp.len()));
        rep.violate(
            "same_packets",
            format!(
                "clientbound packets differ at #{at}: reference {} vs variant {} (reference result {}, variant result {} {})",
                rp.get(at).map(|v| v["kind"].to_string()).unwrap_or("<none>".into()),
                vp.get(at).map(|v| v["kind"].to_string()).unwrap_or("<none>".into()),
                refo.result,
                var.result,
                var.result_text
            ),
        );
        return;
    }
    let (rc, vc) = (service_calls(refo), service_calls(var));
    if silent {
        let n = rc.len().min(vc.len());
        if rc[..n] != vc[..n] {
            rep.violate("same_service_calls", "service call logs of the two executions are not prefixes of one another".into());
        }
        if refo.result != var.result {
            rep.violate("same_outcome", format!("reference ended {} , variant ended {} {}", refo.result, var.result, var.result_text));
        }
        return;
    }
    if rc != vc {
        let at = rc.iter().zip(vc.iter()).position(|(a, b)| a != b).unwrap_or(rc.len().min(vc.len()));
        rep.violate("same_service_calls", format!("service call logs differ at #{at}: {:?} vs {:?}", rc.get(at), vc.get(at)));
        return;
    }
    if refo.result != var.result {
        rep.violate("same_outcome", format!("reference ended {} , variant ended {} {}", refo.result, var.result, var.result_text));
        return;
    }
    // bounded liveness: done within 16 s of the last segment / last service completion
    let last_avail = var.pipe.avail.iter().map(|a| a.1).filter(|t| *t != u64::MAX).max().unwrap_or(0);
    let last_svc = var.log.iter().filter(|e| e.actor.starts_with("svc:") && e.kind == "done").map(|e| e.t_ns).max().unwrap_or(0);
    if let Some(d) = var.done_ns
        && d > last_avail.max(last_svc) + PERIOD + total_pause(sc)
    {
        rep.violate("finishes_after_last_event", format!("variant finished at {d} ns, last segment available at {last_avail}, last service completion at {last_svc}"));
    }
}

impl Check for C08 {
    type Sc = C08Sc;
    fn id(&self) -> &'static str {
        "C08"
    }
    fn level(&self) -> &'static str {
        "fault_enumeration"
    }
    fn rule_text(&self) -> String {
        "for a generated base scenario (login or transfer, routing latencies up to 40 s, Client Information up to 30 s late, extra configuration frames of up to 400 bytes at random instants, prompt echoes) the reference execution is compared with one faulted execution. Half of the evaluations enumerate by run index a single cut at (frame, byte offset) of the client's stream with a gate from {none+spurious Pending, 1 us, 1 ms, random up to 4 s, just after the next keep-alive tick, just after the next service completion}; a quarter use random multi-cut plans including one-byte-at-a-time frames; a quarter use write-acceptance plans (1-byte / short prefixes, Pending for up to 1.5 s, Pending until a service completes, spurious Pending) with or without a cut. Pauses are bounded by 5 s so a prompt client stays prompt; evaluations where an echo still arrived late are skipped and counted. Non-trivial = a gated segment, split frame or write fault actually fired; distinct = distinct event-order trace hash of the variant.".into()
    }
    fn assumptions(&self) -> Vec<String> {
        vec![
            "masked between executions: verify token, session id / trace id, cookie timestamp second, Keep Alive exchanges".into(),
            "a variant is only judged when every keep-alive echo was available to the server at least 1 s (plus all write blocks) before the next one was due".into(),
        ]
    }
    fn components(&self) -> Value {
        json!({"real": ["Connection::listen / receive_packet / send_packet / keep_alive", "CipherStream", "tokio select!/interval (seeded, paused clock)"], "stub": ["transport with gates and write rules", "client", "services"]})
    }
    fn count(&self, tier: Tier) -> u64 {
        match tier {
            Tier::Quick => 60_000,
            Tier::Thorough => 4_000_000,
        }
    }
    fn generate(&self, rng: &mut Rng, index: u64, _tier: Tier) -> C08Sc {
        if index % 12 == 11 {
            let mut c = generate(rng, 0);
            c.sc.prelude.clear();
            c.listener = Some(Box::new(gen_listener(rng)));
            return c;
        }
        generate(rng, index)
    }
    fn execute(&self, c: &C08Sc) -> RunReport {
        if let Some(n) = &c.listener {
            return run_listener(n);
        }
        let sc = &c.sc;
        if !conn_domain_ok(sc) || sc.cap_ns < secs(600) || sc.client.script.is_some() || !sc.client.mutations.is_empty() || !matches!(sc.client.enc, crate::client::EncVariant::Honest) || !sc.client.ka.is_empty() || !(matches!(sc.client.ka_default, crate::client::KaPolicy::Prompt | crate::client::KaPolicy::Never) || tie_mode(sc)) {
            return RunReport::default();
        }
        if sc.wplan.iter().any(|w| matches!(w, WRule::Broken | WRule::Stall)) {
            return RunReport::default();
        }
        // the client program must not depend on timing: extras only in the configuration phase, ignorable ids
        if !matches!(sc.client.intent, 1..=3) || sc.client.extras.iter().any(|e| !e.after_ack || !matches!(e.id, 0x01 | 0x02 | 0x04) || (e.id == 0x04 && !matches!(e.body, Body::KeepAlive { .. }))) {
            return RunReport::default();
        }
        // with an earlier connection that ended abruptly: the undisturbed execution is taken before and after it
        let fresh = if sc.prelude.is_empty() {
            None
        } else {
            let mut plain = reference_of(sc);
            plain.prelude.clear();
            Some(run_conn(&plain))
        };
        let refo = crate::conn::run_conn_after_prelude(&reference_of(sc));
        let var = crate::conn::run_conn_after_prelude(sc);
        let mut rep = base_report(&var);
        rep.runs = 2;
        if let Some(fresh) = &fresh {
            rep.runs += 1 + sc.prelude.len() as u64 * 2;
            *rep.faults.entry("earlier_connection_ended_abruptly".into()).or_insert(0) += 1;
            // what the client is sent does not depend on what an earlier connection left behind
            let kinds = |o: &ConnOutcome| o.view.packets.iter().filter(|p| p.kind != "KeepAlive").map(|p| (p.kind.clone(), p.len)).collect::<Vec<_>>();
            if fresh.view.undecodable.is_none() && fresh.result != "Hung" && (refo.view.undecodable.is_some() || kinds(fresh) != kinds(&refo) || fresh.result != refo.result) {
                rep.violate(
                    "frames_arrive_complete",
                    format!("after an earlier connection that ended with a broken transport, the same undisturbed client is sent {:?} ({} {:?}) instead of {:?} ({})", refo.view.kinds(), refo.result, refo.view.undecodable, fresh.view.kinds(), fresh.result),
                );
            }
        }
        rep.sim_ns += refo.end_ns;
        rep.full_hash = rep.full_hash.rotate_left(13) ^ refo.full_hash();
        rep.nontrivial = ["c2s_gated_segment", "c2s_frame_split", "c2s_frames_coalesced_in_one_read", "write_partial_accept", "write_pending_delay", "write_pending_event", "write_spurious_pending", "read_spurious_pending", "write_after_the_peer_hung_up"]
            .iter()
            .any(|k| var.faults.contains_key(*k));
        compare(sc, &refo, &var, &mut rep);
        rep
    }
    fn neutralise(&self, c: &C08Sc, trigger: &str) -> Option<C08Sc> {
        // known-finding triggers are transport pauses that straddle a tick or a completion
        if trigger != "pause_or_block_inside_a_frame" {
            return None;
        }
        if c.sc.client.cuts.is_empty() && c.sc.wplan.is_empty() {
            return None;
        }
        let mut n = c.clone();
        for cut in &mut n.sc.client.cuts {
            cut.gate = Gate::Now;
            cut.spurious = 0;
        }
        n.sc.wplan.retain(|w| matches!(w, WRule::Accept { .. }));
        Some(n)
    }
}
