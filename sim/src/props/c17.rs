//! C17 - shutdown drains in-flight connections and serves no new ones.
//! The real Listener with a stop signal at an arbitrary instant - deliberately also at the same
//! virtual instant as a connect, before and after it in event order - compared with the stop-free
//! run of the same scenario.

use super::c15::{v1_header, v2_header};
use super::common::*;
use crate::client::{ClientSpec, Cut};
use crate::pipe::Gate;
use crate::net::{NetCfg, NetClient, NetOutcome, NetScenario, run_net};
use crate::rng::Rng;
use crate::runner::{Check, RunReport, Tier};
use crate::services::{AuthRes, DiscRes, Script, Services, TargetSpec};
use serde::{Deserialize, Serialize};
use serde_json::{Value, json};

pub struct C17;

#[derive(Clone, Debug, Serialize, Deserialize, PartialEq)]
pub struct C17Sc {
    pub net: NetScenario,
}

fn generate(rng: &mut Rng) -> C17Sc {
    let n = rng.range(0, 10);
    let timeout_s = *rng.pick(&[20u64, 60, 120]);
    let mut clients = vec![];
    let mut times = vec![];
    // with PROXY protocol a connection can be "just accepted" for a long time: its header may still be on its way
    let proxy = if rng.chance(1, 3) { Some((true, true)) } else { None };
    for i in 0..n {
        let t = ms(rng.range(0, 20) * 500);
        times.push(t);
        let intent = *rng.pick(&[1, 2, 2, 3]);
        let mut spec = ClientSpec::base(rng, intent);
        // some clients dawdle so that they are mid-login when the stop arrives
        spec.ack_delay_ns = *rng.pick(&[0u64, 0, secs(1), secs(4)]);
        spec.info_delay_ns = *rng.pick(&[0u64, 0, secs(2), secs(7)]);
        spec.ping_delay_ns = *rng.pick(&[0u64, 0, ms(700), secs(3)]);
        if rng.chance(1, 8) {
            spec.mute_after = Some(rng.range(0, 3) as usize); // goes silent: bounded by the timeout
            // idle first, then stalling: the first byte comes late (without PROXY protocol the deadline counts from the accept)
            if proxy.is_none() && spec.mute_after != Some(0) && rng.chance(1, 2) {
                spec.cuts.push(Cut { at: 0, gate: Gate::Delay { ns: secs(timeout_s) / 100 * rng.range(30, 90) }, spurious: 0 });
            }
        }
        spec.close_on_end_ns = Some(0);
        spec.coalesce = rng.chance(1, 2);
        if proxy.is_some() {
            let src: std::net::SocketAddr = format!("198.51.100.{}:{}", 1 + i % 200, 51_000 + i).parse().unwrap();
            let dst: std::net::SocketAddr = "192.0.2.200:25565".parse().unwrap();
            let mut h = if rng.chance(1, 2) { v1_header(&src, &dst) } else { v2_header(&src, &dst, false) };
            // a valid header that announces no address (v2 LOCAL, v1 UNKNOWN): a connection in progress like any other
            if rng.chance(1, 5) {
                h = if rng.chance(1, 2) { v2_header(&src, &dst, true) } else { b"PROXY UNKNOWN\r\n".to_vec() };
            }
            let hl = h.len() as u64;
            spec.preamble = Some(h);
            // the header trickles in: complete only seconds later, or just inside the deadline
            match rng.below(4) {
                0 => spec.cuts.push(Cut { at: rng.range(1, hl - 1), gate: Gate::Delay { ns: secs(rng.range(1, 6)) }, spurious: 0 }),
                1 => spec.cuts.push(Cut { at: rng.range(1, hl - 1), gate: Gate::Delay { ns: secs(timeout_s - 2) }, spurious: 0 }),
                _ => {}
            }
        }
        clients.push(NetClient { connect_at_ns: t, peer: format!("10.1.{}.{}:{}", i / 100, 1 + i % 100, 41_000 + i), spec, wplan: vec![] });
    }
    // rarely: a listener that has seen a crowd of short connections come and go while one slow player is still
    // being routed (whatever it keeps per connection has been appended to and pruned many times by the stop)
    let crowd = rng.chance(1, 40);
    if crowd {
        let extra = *rng.pick(&[70u64, 130, 260]);
        for k in 0..extra {
            let i = n + k;
            let mut spec = ClientSpec::base(rng, 1);
            spec.close_on_end_ns = Some(0);
            if proxy.is_some() {
                let src: std::net::SocketAddr = format!("198.51.100.{}:{}", 1 + i % 200, 51_000 + i).parse().unwrap();
                let dst: std::net::SocketAddr = "192.0.2.200:25565".parse().unwrap();
                spec.preamble = Some(v2_header(&src, &dst, false));
            }
            clients.push(NetClient { connect_at_ns: ms(200 + rng.range(0, 5000)), peer: format!("10.1.{}.{}:{}", i / 100, 1 + i % 100, 41_000 + i), spec, wplan: vec![] });
        }
        // and one ordinary login at the very start that takes its time
        if let Some(c) = clients.first_mut() {
            c.connect_at_ns = 0;
            c.spec.intent = 2;
            c.spec.mute_after = None;
            c.spec.cuts.clear();
        }
    }
    clients.sort_by_key(|c| c.connect_at_ns);
    let stop_at = match rng.below(4) {
        _ if crowd => ms(5300 + rng.range(0, 3000)),
        // long after the last accept: only connections whose PROXY header took its time are still in progress
        _ if proxy.is_some() && rng.chance(1, 4) => times.iter().copied().max().unwrap_or(0) + secs(timeout_s) + ms(rng.range(200, 6000)),
        // exactly at a connect instant
        0 | 1 if !times.is_empty() => *rng.pick(&times),
        2 => ms(rng.range(0, 12_000)),
        _ => ms(rng.range(0, 10) * 500 + 250),
    };
    // a back-end adapter with a bug: the task of one connection panics while the others are in flight
    let crash = n >= 2 && rng.chance(1, 5);
    if crash {
        let k = rng.usize_below(clients.len());
        clients[k].spec.name = "Crash".into();
        if clients[k].spec.intent == 1 {
            clients[k].spec.intent = 2;
        }
    }
    let services = Services {
        filter: Script::always(Some(*rng.pick(&[0u64, ms(300)])), if crash { crate::services::FiltRes::PanicIfUser { name: "Crash".into() } } else { crate::services::FiltRes::Identity }),
        auth: Script::always(Some(*rng.pick(&[0u64, 0, secs(1)])), AuthRes::Claim),
        status: Script::always(Some(*rng.pick(&[0u64, 0, 0, ms(900), secs(4)])), crate::services::StatusRes::Minimal),
        discovery: Script::always(Some(*rng.pick(&[0u64, secs(1), secs(5), secs(17)])), DiscRes::Targets(vec![TargetSpec { id: "t0".into(), addr: "10.9.8.7:25565".into(), meta: Default::default() }])),
        ..Default::default()
    };
    // (a third of the application runs discover their targets through the Agones adapter and a simulated API server)
    let use_start = !crash && rng.chance(1, 3);
    C17Sc {
        net: NetScenario {
            seed: rng.next_u64(),
            // a third of the runs go through the application entry point: passage::start(config), stopped
            // by the (simulated) interrupt signal it listens for
            cfg: NetCfg { secret: None, expiry: None, max_frame: None, timeout_ns: secs(timeout_s), proxy, limiter: None, use_start, agones: use_start && rng.chance(1, 3), secret_source: None, localization_from_services: false },
            wall: Default::default(),
            services,
            clients,
            stop_at_ns: Some(stop_at),
            stop_before: rng.chance(1, 2),
            // sometimes the listener (and then the tasks it spawned, and so on) get to run between the connects of the
            // stop's instant and the stop call
            yields_before_stop: *rng.pick(&[0u8, 0, 0, 1, 1, 2, 3]),
            // (the same listener value may have been run before: started and stopped while idle)
            relisten: !use_start && rng.chance(1, 5),
            cap_ns: 3 * secs(timeout_s) + secs(60),
        },
    }
}

fn outcome_of(out: &NetOutcome, i: usize) -> Value {
    let c = &out.clients[i];
    json!({
        // Keep Alive packets are left out: a routing completion that ties with a tick is decided by the seeded select! either way
        "packets": c.view.packets.iter().filter(|p| p.kind != "KeepAlive").map(|p| json!({"t": p.t_ns, "kind": p.kind})).collect::<Vec<_>>(),
        "closed": c.closed_ns,
    })
}

pub fn check(sc: &C17Sc, out: &NetOutcome, free: &NetOutcome, rep: &mut RunReport) {
    for o in [out, free] {
        if !o.panics.is_empty() {
            rep.violate("no_panic", format!("panicked: {}", o.panics[0].replace('\n', " ")));
            return;
        }
    }
    let Some(stop) = out.stop_ns else { return };
    let Some(ret) = out.listen_returned_ns else {
        rep.violate("listen_returns_after_stop", format!("stop requested at {stop} ns but listen() had not returned at the cap ({} ns)", out.end_ns));
        return;
    };
    if out.listen_result != "Ok" {
        rep.violate("listen_returns_ok", format!("listen() returned {}", out.listen_result));
    }
    // event order: which connects were issued before the stop?
    let stop_seq = out.log.iter().find(|e| e.actor == "driver" && e.kind == "stop").map(|e| e.seq).unwrap_or(u64::MAX);
    for (i, c) in out.clients.iter().enumerate() {
        let conn_seq = out.log.iter().find(|e| e.actor == format!("c{i}") && e.kind == "connect").map(|e| e.seq);
        let Some(conn_seq) = conn_seq else {
            continue; // never issued (beyond the cap)
        };
        let after_stop = conn_seq > stop_seq;
        let served = c.rx_total > 0;
        // through the application entry point the interrupt reaches the listener by way of a task of its
        // own: a connection that arrives at the very instant of the interrupt is a tie, either fate is fine
        if sc.net.cfg.use_start && sc.net.clients[i].connect_at_ns == stop {
            continue;
        }
        if after_stop {
            if served {
                rep.violate("nothing_served_after_stop", format!("connection {i} arrived after the stop request (event #{conn_seq} > #{stop_seq}, t = {} ns) but received {} bytes: {:?}", sc.net.clients[i].connect_at_ns, c.rx_total, c.view.kinds()));
            }
            if !c.refused && c.closed_ns.is_none_or(|t| t > ret) {
                rep.violate("late_connection_sees_eof", format!("connection {i} arrived after the stop and was still open when listen() returned at {ret} ns (closed {:?})", c.closed_ns));
            }
            continue;
        }
        // issued before the stop
        match c.accepted_ns {
            Some(_) if c.accepted_ns.is_some() && accepted_before_stop(out, i, stop_seq) => {
                // in flight at the stop: must end exactly as in the stop-free run
                let (a, b) = (outcome_of(out, i), outcome_of(free, i));
                if a != b {
                    rep.violate("in_flight_connection_unaffected", format!("connection {i} was accepted before the stop at {stop} ns; with the stop it went {a}, without it {b}"));
                }
                if c.closed_ns.is_none_or(|t| t > ret) {
                    rep.violate("listen_waits_for_in_flight", format!("listen() returned at {ret} ns while connection {i} was still open (closed {:?})", c.closed_ns));
                }
            }
            _ => {
                // connected before the stop but not yet accepted: fully served or nothing, never half
                if served {
                    let (a, b) = (outcome_of(out, i), outcome_of(free, i));
                    if a != b {
                        rep.violate("queued_connection_all_or_nothing", format!("connection {i} was queued at the stop; it was served differently from the stop-free run: {a} vs {b}"));
                    }
                } else if !c.refused && c.closed_ns.is_none_or(|t| t > ret) {
                    rep.violate("queued_connection_all_or_nothing", format!("connection {i} was queued at the stop, got nothing, and was still open when listen() returned"));
                }
            }
        }
    }
    // every connection is over one timeout after it was accepted (with PROXY protocol: header wait, then the exchange)
    let bound = sc.net.cfg.timeout_ns * if sc.net.cfg.proxy.is_some() { 2 } else { 1 };
    for (i, c) in out.clients.iter().enumerate() {
        if let Some(acc) = c.accepted_ns
            && c.closed_ns.is_none_or(|t| t > acc + bound)
            && out.end_ns > acc + bound
        {
            rep.violate("drain_bounded_by_timeout", format!("connection {i} was accepted at {acc} ns and was still open {} ns later (timeout {} ns): closed {:?}", bound, sc.net.cfg.timeout_ns, c.closed_ns));
        }
    }
    // listen() returns no earlier than the end of the last in-flight connection
    let last_end = out.clients.iter().filter_map(|c| if c.rx_total > 0 { c.closed_ns } else { None }).max().unwrap_or(0);
    if ret < last_end {
        rep.violate("listen_waits_for_in_flight", format!("listen() returned at {ret} ns, the last served connection ended at {last_end} ns"));
    }
    // and not needlessly late: bounded by the connection timeout after the stop
    // (with PROXY protocol the deadline applies to the header wait and then to the connection itself)
    let per_conn = sc.net.cfg.timeout_ns * if sc.net.cfg.proxy.is_some() { 2 } else { 1 };
    if ret > stop.max(last_end) + per_conn {
        rep.violate("drain_bounded_by_timeout", format!("stop at {stop} ns, last connection ended at {last_end} ns, listen() returned only at {ret} ns"));
    }
}

fn accepted_before_stop(out: &NetOutcome, i: usize, stop_seq: u64) -> bool {
    // the accept happened before the stop request iff the connection had been accepted at a strictly
    // earlier virtual instant, or at the same instant but the connect event precedes the stop in the
    // event order AND the listener had the chance to run in between - which the driver does not give
    // it at an exact tie. So: strictly earlier instant only.
    // (plus: the driver looks at the listener's accept log at the moment it calls the stop - a connection the
    // listener had already taken from the queue by then is in progress, also at the very same instant)
    let stop_t = out.log.iter().find(|e| e.seq == stop_seq).map(|e| e.t_ns).unwrap_or(u64::MAX);
    out.clients[i].accepted_ns.is_some_and(|t| t < stop_t) || out.clients[i].accepted_before_stop_call
}

impl Check for C17 {
    type Sc = C17Sc;
    fn id(&self) -> &'static str {
        "C17"
    }
    fn level(&self) -> &'static str {
        "exploration"
    }
    fn rule_text(&self) -> String {
        "0-10 connections (status, login, transfer; some dawdling before Login Acknowledged / Client Information, some going silent) arriving on a 500 ms grid within 10 s, routing latency 0-17 s, timeout 20-120 s, and a stop request placed exactly at a connect instant (half of the runs; issued before or after the connects of that instant), between grid points, or at a random millisecond. At the stop's own instant the driver either calls the stop at once, lets a task queued behind the listener call it (accepted, connection task not yet polled), or lets everything ready run 1-2 rounds first. One run in forty adds a crowd of 70-260 short connections around one slow login. A third of the runs go through passage::start and the simulated interrupt, a third of those with Agones discovery. Every scenario is run with and without the stop. Non-trivial = at least one connection was in flight or queued at the stop; distinct = distinct event-order trace hash.".into()
    }
    fn assumptions(&self) -> Vec<String> {
        vec![
            "a connection counts as 'already in progress' when the listener had taken it from the accept queue before the stop was called (observed at the call, also within one virtual instant); connects issued at the stop's own instant that the listener had not yet accepted are 'queued': either outcome (fully served / nothing) is accepted".into(),
            "arrival order at an exact tie is the driver's event order".into(),
        ]
    }
    fn components(&self) -> Value {
        json!({"real": ["Listener::listen (accept/stop select, TaskTracker close + wait)", "Connection", "tokio CancellationToken", "passage::start + simulated interrupt (hook H6) in a third of the runs", "AgonesDiscoveryAdapter + kube watcher against the simulated API server (hook H4) in a third of those"], "stub": ["network (hook H1)", "clients", "services (listener mode) / built-in adapters (application mode)", "Kubernetes API server (simulated)", "stop signal source"]})
    }
    fn count(&self, tier: Tier) -> u64 {
        match tier {
            Tier::Quick => 40_000,
            Tier::Thorough => 2_000_000,
        }
    }
    fn generate(&self, rng: &mut Rng, _index: u64, _tier: Tier) -> C17Sc {
        generate(rng)
    }
    fn execute(&self, sc: &C17Sc) -> RunReport {
        if !net_domain_ok(&sc.net) || sc.net.stop_at_ns.is_none() || sc.net.cap_ns < sc.net.cfg.timeout_ns * if sc.net.cfg.proxy.is_some() { 3 } else { 1 } + secs(30) {
            return RunReport::default();
        }
        if sc.net.clients.iter().any(|c| c.spec.script.is_some() || !c.spec.mutations.is_empty() || c.spec.preamble.is_some() != sc.net.cfg.proxy.is_some() || !c.wplan.is_empty() || !matches!(c.spec.intent, 1..=3)) {
            return RunReport::default();
        }
        // cuts only inside the PROXY header (a trickling header), nowhere else
        // (or, without PROXY protocol, one in front of the first byte of a client that then stalls)
        if sc.net.clients.iter().any(|c| c.spec.cuts.iter().any(|k| !matches!(k.gate, Gate::Delay { .. }) || match &c.spec.preamble { Some(p) => k.at == 0 || k.at >= p.len() as u64, None => k.at != 0 || c.spec.mute_after.is_none() })) {
            return RunReport::default();
        }
        let out = run_net(&sc.net);
        let mut free_sc = sc.net.clone();
        free_sc.stop_at_ns = None;
        let free = run_net(&free_sc);
        let mut rep = RunReport {
            runs: 2,
            trace_hash: out.trace_hash(),
            full_hash: out.full_hash().rotate_left(7) ^ free.full_hash(),
            sim_ns: out.end_ns + free.end_ns,
            ..Default::default()
        };
        rep.merge_counts(&out.faults, &out.probes);
        *rep.faults.entry(if sc.net.cfg.use_start { "interrupt_signal_to_application".to_string() } else { "stop_signal".to_string() }).or_insert(0) += 1;
        if sc.net.cfg.use_start && sc.net.cfg.agones {
            *rep.faults.entry("discovery_through_the_agones_adapter".into()).or_insert(0) += 1;
            if out.clients.iter().any(|c| c.view.first("Transfer").is_some()) {
                *rep.probes.entry("player_routed_to_an_agones_game_server".into()).or_insert(0) += 1;
            }
        }
        if sc.net.clients.iter().any(|c| !c.spec.cuts.is_empty()) {
            *rep.faults.entry("proxy_header_trickles_in".into()).or_insert(0) += 1;
        }
        let stop = sc.net.stop_at_ns.unwrap();
        if out.clients.iter().any(|c| c.accepted_before_stop_call && c.accepted_ns == out.stop_ns) {
            *rep.probes.entry("accepted_within_the_stops_instant_before_the_call".into()).or_insert(0) += 1;
        }
        if sc.net.clients.iter().any(|c| c.connect_at_ns == stop) {
            *rep.probes.entry("stop_same_instant_as_connect".into()).or_insert(0) += 1;
        }
        let in_flight = out.clients.iter().filter(|c| c.accepted_ns.is_some_and(|a| a < stop) && c.closed_ns.is_none_or(|t| t > stop)).count();
        if in_flight > 0 {
            *rep.probes.entry("connections_in_flight_at_stop".into()).or_insert(0) += in_flight as u64;
        }
        rep.nontrivial = in_flight > 0 || sc.net.clients.iter().any(|c| c.connect_at_ns >= stop);
        check(sc, &out, &free, &mut rep);
        rep
    }
}
