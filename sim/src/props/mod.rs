pub mod c01;
pub mod c02;
pub mod c03;
pub mod c05;
pub mod c10;
pub mod c13;
pub mod common;

use crate::runner::{Erased, Wrap};

pub fn all() -> Vec<Box<dyn Erased>> {
    vec![
        Box::new(Wrap(c01::C01)),
        Box::new(Wrap(c02::C02)),
        Box::new(Wrap(c03::C03)),
        Box::new(Wrap(c05::C05)),
        Box::new(Wrap(c10::C10)),
        Box::new(Wrap(c13::C13)),
    ]
}
