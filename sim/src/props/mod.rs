pub mod c05;
pub mod c13;

use crate::runner::{Erased, Wrap};

pub fn all() -> Vec<Box<dyn Erased>> {
    vec![Box::new(Wrap(c05::C05)), Box::new(Wrap(c13::C13))]
}
