pub mod c01;
pub mod c02;
pub mod c03;
pub mod c04;
pub mod c05;
pub mod c06;
pub mod c07;
pub mod c08;
pub mod c10;
pub mod c13;
pub mod c14;
pub mod c15;
pub mod c16;
pub mod c17;
pub mod c20;
pub mod common;
pub mod swarm;

use crate::runner::{Erased, Wrap};

pub fn all() -> Vec<Box<dyn Erased>> {
    vec![
        Box::new(Wrap(c01::C01)),
        Box::new(Wrap(c02::C02)),
        Box::new(Wrap(c03::C03)),
        Box::new(Wrap(c04::C04)),
        Box::new(Wrap(c05::C05)),
        Box::new(Wrap(c06::C06)),
        Box::new(Wrap(c07::C07)),
        Box::new(Wrap(c08::C08)),
        Box::new(Wrap(c10::C10)),
        Box::new(Wrap(c13::C13)),
        Box::new(Wrap(c14::C14)),
        Box::new(Wrap(c15::C15)),
        Box::new(Wrap(c16::C16)),
        Box::new(Wrap(c17::C17)),
        Box::new(Wrap(c20::C20)),
    ]
}
