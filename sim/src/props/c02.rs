//! C02 - authentication is skipped only for a valid, unexpired, same-IP signed cookie.
//! Fault enumeration over the presented cookie: every truncation length and every single-bit flip
//! of a valid cookie, other secrets, non-JSON / wrong-shape bodies under a valid tag, absent and
//! empty payloads, crossed (sampled) with intent, configured secret, presenting IP and age vs expiry.

use super::common::*;
use crate::client::ClientSpec;
use crate::conn::{ConnCfg, ConnOutcome, ConnScenario, Wall, run_conn};
use crate::rng::Rng;
use crate::runner::{Check, RunReport, Tier};
use crate::services::{AuthRes, DiscRes, Script, Services};
use serde_json::{Value, json};

pub struct C02;

const VOUCHED_NAME: &str = "VouchedByService";

fn generate(rng: &mut Rng, index: u64) -> ConnScenario {
    // a quarter of the runs are two-connection histories: an earlier connection handled by the same process
    // presented the genuine cookie (and was accepted), then this one presents the variant. Whatever the code
    // under simulation remembers about cookies it has seen is primed that way.
    let with_prior = rng.chance(1, 4);
    let secret_cfg: Option<Vec<u8>> = match rng.below(10) {
        0 if with_prior => Some(rng.bytes(32)),
        // secrets as operators write them: several lines, a trailing line break, separators
        9 => Some((*rng.pick(&[&b"first-key\nsecond-key"[..], b"s3cret\n", b"\nleading", b"alpha,beta", b"part one part two", b"k1:k2:k3", b"\n"])).to_vec()),
        0 => None,
        1 => Some(vec![]),
        2 => Some(rng.bytes(3)),
        // longer than one HMAC block
        3 => {
            let n = *rng.pick(&[64usize, 65, 100, 200]);
            Some(rng.bytes(n))
        }
        _ => Some(rng.bytes(32)),
    };
    let signing_secret = secret_cfg.clone().unwrap_or_else(|| b"unconfigured".to_vec());
    let intent = if rng.chance(1, 6) && !with_prior { 2 } else { 3 };
    let client_addr = match rng.below(10) {
        // an IPv6 client whose address embeds an IPv4 one (IPv4-compatible form)
        0 => format!("[::{}.{}.{}.{}]:{}", rng.range(1, 223), rng.below(256), rng.below(256), rng.range(1, 254), rng.range(1024, 65535)),
        _ => gen_addr(rng),
    };
    let expiry = *rng.pick(&[0u64, 1, 60, 21_600, 21_600, 1 << 63, u64::MAX]);
    // the client may take its time before it answers the authentication cookie request, and the wall
    // clock may step meanwhile: the age that counts is the one at the moment the cookie is checked
    let think_s: u64 = if with_prior { 0 } else { *rng.pick(&[0u64, 0, 0, 1, 2, 30, 3000]) };
    let jump: Option<(u64, i64)> = if think_s > 0 && rng.chance(1, 3) { Some((secs(think_s) / 2, *rng.pick(&[-7200i64, -1, 1, 61, 86_400]))) } else { None };
    let wall = Wall { base_s: 1_800_000_000, jumps: jump.into_iter().collect() };
    // age relative to expiry
    let now = wall.at(secs(think_s));
    let ts = match rng.below(8) {
        _ if with_prior => now.saturating_sub(rng.below(expiry.clamp(1, 1000))),
        0 => now,
        1 => now.saturating_sub(expiry.saturating_sub(1)),
        2 => now.saturating_sub(expiry),
        3 => now.saturating_sub(expiry).saturating_sub(1),
        4 => 0,
        5 => now + 1000,
        _ => now.saturating_sub(rng.below(expiry.clamp(1, 100_000))),
    };
    let id = Identity { name: if rng.chance(1, 5) { gen_name(rng) } else { format!("InCookie{}", rng.below(50)) }, uuid: gen_uuid(rng), props: gen_props(rng) };
    let cookie_addr = match rng.below(9) {
        _ if with_prior => client_addr.clone(),
        0 => gen_addr(rng),
        // a different address that merely embeds / is embedded in the client's (IPv4-compatible IPv6)
        6 | 7 => {
            let a: std::net::SocketAddr = client_addr.parse().unwrap();
            match a.ip() {
                std::net::IpAddr::V4(v4) => {
                    let o = v4.octets();
                    format!("[::{}.{}.{}.{}]:{}", o[0], o[1], o[2], o[3], a.port())
                }
                std::net::IpAddr::V6(v6) => {
                    let o = v6.octets();
                    if o[..12].iter().all(|b| *b == 0) {
                        format!("{}.{}.{}.{}:{}", o[12], o[13], o[14], o[15], a.port())
                    } else {
                        gen_addr(rng)
                    }
                }
            }
        }
        1 => {
            // same ip, other port
            let a: std::net::SocketAddr = client_addr.parse().unwrap();
            std::net::SocketAddr::new(a.ip(), a.port() ^ 1).to_string()
        }
        _ => client_addr.clone(),
    };
    let target = if rng.chance(1, 2) { Some("gs-prev") } else { None };
    // half of the base cookies are laid out exactly as the router writes them (what a returning client really holds)
    let body = if rng.chance(1, 2) { cookie_json_as_issued(ts, &cookie_addr, &id, target) } else { cookie_json(ts, &cookie_addr, &id, target) };
    let valid = signed_cookie(&signing_secret, &body);
    // the variant axis is enumerated by index so every truncation and bit flip is covered
    let nflip = valid.len() as u64 * 8;
    let ntrunc = valid.len() as u64 + 1;
    let nother = 18u64;
    let v = if index % 4 == 3 { 0 } else { (index / 4 * 3 + index % 4) % (1 + ntrunc + nflip + nother) };
    let presented: Option<Vec<u8>> = if v == 0 {
        Some(valid.clone())
    } else if v < 1 + ntrunc {
        Some(valid[..(v - 1) as usize].to_vec())
    } else if v < 1 + ntrunc + nflip {
        let b = v - 1 - ntrunc;
        let mut x = valid.clone();
        x[(b / 8) as usize] ^= 1 << (b % 8);
        Some(x)
    } else {
        match v - 1 - ntrunc - nflip {
            0 => None,
            1 => Some(vec![]),
            2..=4 => Some(signed_cookie(&rng.bytes(32), &body)),
            16 => {
                // a key that is a piece of the configured secret (split at a line break or separator, a half, nothing at all)
                let sec = signing_secret.clone();
                let mut pieces: Vec<Vec<u8>> = vec![vec![], sec[..sec.len() / 2].to_vec(), sec[sec.len() / 2..].to_vec()];
                for d in [b'\n', b',', b' ', b':'] {
                    for part in sec.split(|b| *b == d) {
                        pieces.push(part.to_vec());
                    }
                }
                pieces.retain(|p| *p != sec);
                if pieces.is_empty() {
                    pieces.push(b"x".to_vec());
                }
                let key = rng.pick(&pieces).clone();
                Some(signed_cookie(&key, &body))
            }
            5 => {
                // another secret that shares a long prefix with the configured one (last byte changed, one byte more, one byte less)
                let mut other = signing_secret.clone();
                match rng.below(3) {
                    0 if !other.is_empty() => {
                        let l = other.len() - 1;
                        other[l] ^= 0x01;
                    }
                    1 if other.len() > 1 => {
                        other.pop();
                    }
                    _ => other.push(0x41),
                }
                Some(signed_cookie(&other, &body))
            }
            6 => Some(signed_cookie(&signing_secret, b"not json at all")),
            7 => Some(signed_cookie(&signing_secret, b"")),
            8 => Some(signed_cookie(&signing_secret, b"{\"timestamp\":\"now\"}")),
            9 => {
                // required field missing
                let mut j: Value = serde_json::from_slice(&body).unwrap();
                j.as_object_mut().unwrap().remove(*rng.pick(&["timestamp", "client_addr", "user_name", "user_id", "profile_properties"]));
                Some(signed_cookie(&signing_secret, &serde_json::to_vec(&j).unwrap()))
            }
            10 => {
                // wrong type
                let mut j: Value = serde_json::from_slice(&body).unwrap();
                j[*rng.pick(&["timestamp", "client_addr", "user_name", "user_id", "profile_properties"])] = json!([1, 2]);
                Some(signed_cookie(&signing_secret, &serde_json::to_vec(&j).unwrap()))
            }
            11 => Some(signed_cookie(&signing_secret, b"[]")),
            12 => Some(body.clone()), // body without a tag
            13 | 14 => {
                // the genuine tag in front of a well-formed body naming somebody else
                let other = Identity { name: format!("Forged{}", rng.below(50)), uuid: gen_uuid(rng), props: vec![] };
                let mut x = valid[..32].to_vec();
                x.extend_from_slice(&cookie_json(ts, &cookie_addr, &other, target));
                Some(x)
            }
            15 => {
                // the genuine tag in front of the same body with a later timestamp (a self-made renewal)
                let mut x = valid[..32].to_vec();
                x.extend_from_slice(&cookie_json(ts.saturating_add(1 + rng.below(100_000)), &cookie_addr, &id, target));
                Some(x)
            }
            _ => Some(valid.clone()),
        }
    };
    let mut client = ClientSpec::base(rng, intent);
    client.name = "Claimed".into();
    match rng.below(6) {
        0 => client.uuid = format!("{:032x}", id.uuid), // same UUID as the cookie, other name
        1 => client.name = id.name.clone(),             // same name as the cookie, other UUID
        _ => {}
    }
    client.auth_cookie = presented;
    // a client that has been here before hands back its session cookie as well
    if rng.chance(1, 3) {
        client.session_cookie = Some(serde_json::to_vec(&json!({"id": uuid_hyph(gen_uuid(rng)), "server_address": "earlier.example.org", "server_port": 25565, "trace_id": null})).unwrap());
    }
    // a login (not a transfer) whose client answers the session-cookie request under the authentication key, with its auth cookie
    if intent == 2 && rng.chance(1, 3) {
        client.cookie_rekey = vec![("passage:session".to_string(), "passage:authentication".to_string())];
    }
    // (the answer rarely comes at the very start of a wall-clock second)
    let think_sub = if with_prior { 0 } else { *rng.pick(&[0u64, 0, ms(1), ms(500), ms(999)]) };
    if think_s > 0 || think_sub > 0 {
        client.login_think_ns = vec![0, secs(think_s) + think_sub];
    }
    // the authentication service may be down (a cookie that is not acceptable does not become acceptable because of that)
    let auth_down = rng.chance(1, 8);
    let services = Services {
        auth: Script::always(Some(*rng.pick(&[0u64, 0, 0, secs(3), secs(8), secs(30)])), if auth_down { AuthRes::Error } else { AuthRes::Profile { name: VOUCHED_NAME.into(), uuid: format!("{:032x}", 0xabcdu128), props: vec![] } }),
        discovery: Script::always(Some(0), DiscRes::Targets(vec![gen_target(rng, 0)])),
        ..Default::default()
    };
    let mut sc = ConnScenario {
        seed: rng.next_u64(),
        cfg: ConnCfg { secret: secret_cfg, expiry: Some(expiry), max_frame: None, client_addr },
        wall,
        services,
        client,
        wplan: vec![],
        cap_ns: secs(3600),
        prelude: vec![],
        growth: None,
    };
    zero_time_noise(rng, &mut sc);
    if with_prior {
        let mut prior = sc.clone();
        prior.client.auth_cookie = Some(valid);
        prior.seed ^= 0x0707_0707;
        prior.client.rng ^= 0x77;
        // one or two earlier connections with the genuine cookie
        sc.prelude = if rng.chance(1, 3) { vec![prior.clone(), prior] } else { vec![prior] };
    }
    sc
}

pub fn check(sc: &ConnScenario, out: &ConnOutcome, rep: &mut RunReport) {
    let c = &sc.client;
    if !out.panics.is_empty() {
        rep.violate("no_panic", format!("handler panicked: {}", out.panics[0]));
        return;
    }
    check_service_addresses(sc, out, rep);
    let cookie_t = out.view.sent.iter().filter(|s| s.kind == "CookieResponse").nth(1).map(|s| s.t_ns).unwrap_or(0);
    let pred = cookie_accepted(c.intent, sc.cfg.secret.as_deref(), c.auth_cookie.as_deref(), &sc.cfg.client_addr, wall_at(sc, cookie_t), expiry_of(sc));
    let enc_req = out.view.first("EncryptionRequest");
    let auth_called = out.events("svc:auth", "call").count() > 0;
    let ls = login_success_identity(out);
    if !c.cookie_rekey.is_empty() {
        *rep.faults.entry("cookie_answered_under_another_key".into()).or_insert(0) += 1;
        // whatever the server makes of an answer under a key it did not ask for: a login is never let in without a verdict
        if c.intent == 2 && (enc_req.is_some_and(|e| e.fields["should_authenticate"].as_u64() == Some(0)) || (ls.is_some() && !auth_called)) {
            rep.violate("skip_only_if_valid", format!("a login (intent 2) that answered the session-cookie request under another key was let in without authentication: packets {:?}", out.view.kinds()));
        }
        return;
    }
    let Some(enc_req) = enc_req else {
        rep.violate(
            &format!("told_to_authenticate/{}", out.result),
            format!("no Encryption Request was sent at all (cookie predicate {}): result {} {} / packets {:?}", pred.is_some(), out.result, out.result_text, out.view.kinds()),
        );
        return;
    };
    let flag = enc_req.fields["should_authenticate"].as_u64().unwrap_or(9);
    if flag > 1 {
        rep.violate("flag_is_boolean", format!("should_authenticate byte is {flag}"));
    }
    let skipped = flag == 0 && !auth_called;
    if (flag == 0) == auth_called {
        rep.violate("flag_matches_behaviour", format!("should_authenticate={flag} but authentication service called={auth_called}"));
    }
    match &pred {
        None => {
            if skipped || flag == 0 {
                rep.violate("skip_only_if_valid", format!("authentication skipped although the cookie is not acceptable (intent {}, secret configured {}, cookie {} bytes)", c.intent, sc.cfg.secret.is_some(), c.auth_cookie.as_ref().map(|c| c.len() as i64).unwrap_or(-1)));
            }
            if ls.is_some() && !auth_called {
                rep.violate("verdict_required", "Login Success without consulting the authentication service".into());
            }
            if ls.is_some() && out.events("svc:auth", "done").any(|e| e.detail["ok"] == json!(false)) {
                rep.violate("verdict_required", format!("the authentication service failed, yet Login Success was sent (for {:?})", ls.as_ref().map(|x| &x.0)));
            }
            if let Some((n, _)) = &ls
                && n != VOUCHED_NAME
            {
                rep.violate("identity_from_service", format!("Login Success names {n}, the service vouched for {VOUCHED_NAME}"));
            }
            // ordering: service consulted before Login Success was written
            let t_auth = out.events("svc:auth", "done").map(|e| e.seq).next();
            let t_ls = out.log.iter().find(|e| e.kind == "recv" && e.detail["kind"] == json!("LoginSuccess")).map(|e| e.seq);
            if let (Some(a), Some(l)) = (t_auth, t_ls)
                && a > l
            {
                rep.violate("verdict_required", "Login Success was sent before the authentication verdict".into());
            }
        }
        Some(ck) => {
            if !skipped {
                rep.violate("valid_cookie_accepted", format!("acceptable cookie but should_authenticate={flag}, service called={auth_called}"));
            }
            if let Some((n, u)) = &ls
                && skipped
                && (*n != ck.id.name || *u != ck.id.uuid)
            {
                rep.violate("identity_from_cookie", format!("Login Success names {n} / {u:032x}, cookie carries {} / {:032x}", ck.id.name, ck.id.uuid));
            }
            for svc in ["svc:filter", "svc:strategy"] {
                for e in out.events(svc, "call") {
                    if let Some((n, u)) = svc_user(&e.detail)
                        && skipped
                        && (n != ck.id.name || u != ck.id.uuid)
                    {
                        rep.violate("identity_from_cookie", format!("{svc} got player {n}, cookie carries {}", ck.id.name));
                    }
                }
            }
        }
    }
}

impl Check for C02 {
    type Sc = ConnScenario;
    fn id(&self) -> &'static str {
        "C02"
    }
    fn level(&self) -> &'static str {
        "fault_enumeration"
    }
    fn rule_text(&self) -> String {
        "the cookie-variant axis is enumerated by run index (the exact cookie; every truncation length 0..len; every single-bit flip of tag and body; absent; empty; valid tag under 4 other secrets; valid tag over non-JSON, empty, wrong-shape, field-missing, wrong-type bodies; body without tag) over freshly generated base cookies (IPv4/IPv6, 0-5 properties, target present/absent); the other axes are sampled per run: intent login/transfer, secret none/empty/3/32 bytes, presenting IP same / same-other-port / different / an IPv6 address embedding the IPv4 one (and the reverse), claimed identity disjoint from the cookie's or sharing only the name or only the UUID, age at expiry-1 / expiry / expiry+1 / epoch / future for expiry in {0,1,60,21600,2^63,2^64-1}. Non-trivial = a cookie was presented on a Transfer connection with a secret configured; distinct = distinct (event-order trace, variant class) hash.".into()
    }
    fn assumptions(&self) -> Vec<String> {
        vec![
            "the oracle's HMAC-SHA256 (ipad/opad over sha2) and JSON shape check are correct".into(),
            "the cookie is evaluated at the virtual instant its frame is sent (no transport delay in this check), so the simulated wall clock second is known exactly".into(),
            "duplicate or unknown JSON keys are not generated (parsers may legitimately differ)".into(),
        ]
    }
    fn components(&self) -> Value {
        json!({"real": ["Connection::listen", "cookie::verify", "serde_json AuthCookie parse", "crypto"], "stub": ["transport", "client", "services", "wall clock (hook H2)"]})
    }
    fn count(&self, tier: Tier) -> u64 {
        match tier {
            Tier::Quick => 150_000,
            Tier::Thorough => 6_000_000,
        }
    }
    fn generate(&self, rng: &mut Rng, index: u64, _tier: Tier) -> ConnScenario {
        generate(rng, index)
    }
    fn execute(&self, sc: &ConnScenario) -> RunReport {
        if !conn_domain_ok(sc) || !matches!(sc.client.intent, 2 | 3) || sc.client.script.is_some() || !sc.client.mutations.is_empty() || !matches!(sc.client.enc, crate::client::EncVariant::Honest) || !transport_is_zero_time(sc) {
            return RunReport::default(); // outside this check's domain (shrinking may propose such scenarios)
        }
        let prior: Vec<(&ConnScenario, ConnOutcome)> = sc.prelude.iter().filter(|p| p.prelude.is_empty() && transport_is_zero_time(p)).map(|p| (p, run_conn(p))).collect();
        let out = run_conn(sc);
        let mut rep = base_report(&out);
        for (p, o) in &prior {
            rep.runs += 1;
            rep.sim_ns += o.end_ns;
            rep.trace_hash = rep.trace_hash.rotate_left(13) ^ o.trace_hash();
            rep.full_hash = rep.full_hash.rotate_left(13) ^ o.full_hash();
            *rep.faults.entry("earlier_connection_presented_the_genuine_cookie".into()).or_insert(0) += 1;
            if o.view.first("EncryptionRequest").is_some_and(|e| e.fields["should_authenticate"] == json!(0)) {
                *rep.probes.entry("earlier_connection_was_accepted_by_cookie".into()).or_insert(0) += 1;
            }
            check(p, o, &mut rep);
        }
        rep.nontrivial = sc.client.intent == 3 && sc.cfg.secret.is_some() && sc.client.auth_cookie.is_some();
        let class = match &sc.client.auth_cookie {
            None => 0u64,
            Some(c) => c.len() as u64 + 1,
        };
        rep.trace_hash ^= class.wrapping_mul(0x9E37_79B9_7F4A_7C15);
        let mut h = crate::rng::Fnv(rep.trace_hash);
        h.write_str(&format!("{}|{:?}|{:?}", sc.client.intent, sc.cfg.secret.as_ref().map(|s| s.len()), sc.cfg.expiry));
        rep.trace_hash = h.0;
        *rep.faults.entry("cookie_variant_presented".into()).or_insert(0) += 1;
        if sc.client.login_think_ns.iter().any(|t| *t > 0) {
            *rep.faults.entry("cookie_answered_late".into()).or_insert(0) += 1;
        }
        if !sc.wall.jumps.is_empty() {
            *rep.faults.entry("wall_clock_step_before_cookie_check".into()).or_insert(0) += 1;
        }
        check(sc, &out, &mut rep);
        rep
    }
}
