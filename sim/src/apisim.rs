//! In-process simulated Kubernetes API server for Agones GameServers: a `tower::Service` handed to
//! `kube::Client::new`. Single-copy store + event log + open watch streams, with list pagination,
//! bookmarks, 410 (as ERROR event on watches, as HTTP status on expired continue tokens), HTTP 500,
//! dropped watch streams (clean EOF, I/O error, mid-line), response latency, JSON lines cut at
//! arbitrary chunk boundaries and duplicate delivery after a reconnect. All under virtual time.

use crate::rng::Rng;
use bytes::Bytes;
use http::{Request, Response, StatusCode};
use http_body::Frame;
use serde_json::{Value, json};
use std::collections::BTreeMap;
use std::pin::Pin;
use std::sync::{Arc, Mutex};
use std::task::{Context, Poll};
use std::time::Duration;
use tokio::sync::mpsc::{UnboundedReceiver, UnboundedSender, unbounded_channel};

pub struct ChanBody {
    rx: UnboundedReceiver<Result<Bytes, std::io::Error>>,
}

impl http_body::Body for ChanBody {
    type Data = Bytes;
    type Error = std::io::Error;
    fn poll_frame(mut self: Pin<&mut Self>, cx: &mut Context<'_>) -> Poll<Option<Result<Frame<Bytes>, Self::Error>>> {
        self.rx.poll_recv(cx).map(|o| o.map(|r| r.map(Frame::data)))
    }
}

fn full_body(bytes: Vec<u8>) -> ChanBody {
    let (tx, rx) = unbounded_channel();
    let _ = tx.send(Ok(Bytes::from(bytes)));
    ChanBody { rx }
}

pub struct Watch {
    pub id: u64,
    tx: Option<UnboundedSender<Result<Bytes, std::io::Error>>>,
    /// everything up to this resource version was sent on this stream
    pub sent_upto: u64,
    pub opened_ns: u64,
    pub timeout_s: u64,
}

#[derive(Default)]
pub struct ApiState {
    pub store: BTreeMap<String, Value>,
    pub rv: u64,
    /// (resource version, type, object)
    pub events: Vec<(u64, &'static str, Value)>,
    /// watches from a resource version below this get 410
    pub min_rv: u64,
    pub watches: Vec<Watch>,
    pub next_watch_id: u64,
    pub fail_lists: u32,
    pub fail_watches: u32,
    pub expire_continue: bool,
    pub latency_ms: u64,
    pub chunked: bool,
    pub duplicate_on_reconnect: bool,
    pub snapshots: BTreeMap<u64, (u64, Vec<Value>)>,
    pub next_snapshot: u64,
    pub chunk_rng: Option<Rng>,
    pub counters: BTreeMap<String, u64>,
    pub requests: Vec<String>,
}

pub type Api = Arc<Mutex<ApiState>>;

fn count(st: &mut ApiState, k: &str) {
    *st.counters.entry(k.to_string()).or_insert(0) += 1;
}

impl ApiState {
    fn stamp(&mut self, mut obj: Value) -> Value {
        self.rv += 1;
        obj["metadata"]["resourceVersion"] = json!(self.rv.to_string());
        obj
    }

    pub fn apply(&mut self, name: &str, obj: Value) {
        let existed = self.store.contains_key(name);
        let obj = self.stamp(obj);
        self.store.insert(name.to_string(), obj.clone());
        self.events.push((self.rv, if existed { "MODIFIED" } else { "ADDED" }, obj));
    }

    pub fn delete(&mut self, name: &str) {
        if let Some(obj) = self.store.remove(name) {
            let obj = self.stamp(obj);
            self.events.push((self.rv, "DELETED", obj));
        }
    }

    pub fn compact(&mut self) {
        self.min_rv = self.rv;
        count(self, "compaction");
    }

    fn send_lines(&mut self, wi: usize, lines: Vec<Vec<u8>>) {
        let chunked = self.chunked;
        let mut rng = self.chunk_rng.take();
        if let Some(tx) = &self.watches[wi].tx {
            for mut line in lines {
                line.push(b'\n');
                if chunked && line.len() > 2 {
                    let r = rng.as_mut().unwrap();
                    let mut pos = 0;
                    while pos < line.len() {
                        let n = r.range(1, (line.len() - pos).min(97) as u64) as usize;
                        let _ = tx.send(Ok(Bytes::copy_from_slice(&line[pos..pos + n])));
                        pos += n;
                    }
                } else {
                    let _ = tx.send(Ok(Bytes::from(line)));
                }
            }
        }
        self.chunk_rng = rng;
        if chunked {
            count(self, "chunked_lines");
        }
    }

    /// Pushes every event an open watch has not seen yet.
    pub fn flush(&mut self) {
        for wi in 0..self.watches.len() {
            if self.watches[wi].tx.is_none() {
                continue;
            }
            let from = self.watches[wi].sent_upto;
            let lines: Vec<Vec<u8>> = self
                .events
                .iter()
                .filter(|(rv, _, _)| *rv > from)
                .map(|(_, t, o)| serde_json::to_vec(&json!({"type": t, "object": o})).unwrap())
                .collect();
            if !lines.is_empty() {
                self.send_lines(wi, lines);
            }
            self.watches[wi].sent_upto = self.rv;
        }
    }

    pub fn bookmark(&mut self) {
        let rv = self.rv;
        for wi in 0..self.watches.len() {
            if self.watches[wi].tx.is_some() && self.watches[wi].sent_upto == rv {
                let line = serde_json::to_vec(&json!({"type": "BOOKMARK", "object": {"apiVersion": "agones.dev/v1", "kind": "GameServer", "metadata": {"resourceVersion": rv.to_string()}}})).unwrap();
                self.send_lines(wi, vec![line]);
                count(self, "bookmark");
            }
        }
    }

    /// Ends every open watch stream: 0 clean EOF, 1 I/O error, 2 in the middle of a line.
    pub fn drop_watches(&mut self, how: u8) {
        for w in &mut self.watches {
            if let Some(tx) = w.tx.take() {
                match how {
                    1 => {
                        let _ = tx.send(Err(std::io::Error::from(std::io::ErrorKind::ConnectionReset)));
                    }
                    2 => {
                        let _ = tx.send(Ok(Bytes::from_static(b"{\"type\":\"MODIFIED\",\"object\":{\"apiVersion\":\"agones.dev/v1\",\"ki")));
                    }
                    _ => {}
                }
            }
        }
        count(self, match how {
            1 => "watch_dropped_io_error",
            2 => "watch_dropped_mid_line",
            _ => "watch_dropped_clean",
        });
    }

    /// An ERROR event with code 410 on every open watch, then the stream ends.
    pub fn gone_on_watches(&mut self) {
        let line = serde_json::to_vec(&json!({"type": "ERROR", "object": {"kind": "Status", "apiVersion": "v1", "metadata": {}, "status": "Failure", "message": "too old resource version", "reason": "Expired", "code": 410}})).unwrap();
        for wi in 0..self.watches.len() {
            if self.watches[wi].tx.is_some() {
                self.send_lines(wi, vec![line.clone()]);
                self.watches[wi].tx = None;
            }
        }
        count(self, "watch_gone_410_event");
    }

    pub fn expire_watches(&mut self, now_ns: u64) {
        for w in &mut self.watches {
            if w.tx.is_some() && now_ns >= w.opened_ns + w.timeout_s * 1_000_000_000 {
                w.tx = None;
            }
        }
    }

    /// true when some open watch has been sent everything
    pub fn caught_up(&self) -> bool {
        self.watches.iter().any(|w| w.tx.as_ref().is_some_and(|t| !t.is_closed()) && w.sent_upto == self.rv)
    }
}

fn status_body(code: u16, reason: &str, msg: &str) -> Vec<u8> {
    serde_json::to_vec(&json!({"kind": "Status", "apiVersion": "v1", "metadata": {}, "status": "Failure", "message": msg, "reason": reason, "code": code})).unwrap()
}

fn query(uri: &http::Uri) -> BTreeMap<String, String> {
    let mut m = BTreeMap::new();
    for kv in uri.query().unwrap_or("").split('&') {
        if let Some((k, v)) = kv.split_once('=') {
            m.insert(k.to_string(), v.replace("%3A", ":").replace("%3a", ":"));
        }
    }
    m
}

pub async fn handle<B>(api: Api, req: Request<B>, now_ns: impl Fn() -> u64) -> Result<Response<ChanBody>, std::io::Error> {
    let q = query(req.uri());
    let latency = {
        let mut st = api.lock().unwrap();
        st.requests.push(req.uri().to_string());
        st.latency_ms
    };
    if latency > 0 {
        tokio::time::sleep(Duration::from_millis(latency)).await;
    }
    let mut st = api.lock().unwrap();
    let json_resp = |code: StatusCode, body: Vec<u8>| Response::builder().status(code).header("content-type", "application/json").body(full_body(body)).unwrap();
    if q.get("watch").map(String::as_str) == Some("true") {
        if st.fail_watches > 0 {
            st.fail_watches -= 1;
            count(&mut st, "http_500_on_watch");
            return Ok(json_resp(StatusCode::INTERNAL_SERVER_ERROR, status_body(500, "InternalError", "boom")));
        }
        let from: u64 = q.get("resourceVersion").and_then(|s| s.parse().ok()).unwrap_or(0);
        let timeout_s: u64 = q.get("timeoutSeconds").and_then(|s| s.parse().ok()).unwrap_or(290);
        let (tx, rx) = unbounded_channel();
        let id = st.next_watch_id;
        st.next_watch_id += 1;
        let dup = st.duplicate_on_reconnect && id > 0;
        // duplicate delivery: replay one event the client has already seen
        let effective_from = if dup && from > st.min_rv { from - 1 } else { from };
        if dup {
            count(&mut st, "duplicate_delivery_after_reconnect");
        }
        st.watches.push(Watch { id, tx: Some(tx), sent_upto: effective_from, opened_ns: now_ns(), timeout_s });
        let wi = st.watches.len() - 1;
        if from < st.min_rv {
            // too old: ERROR 410 in-stream, then end
            let line = serde_json::to_vec(&json!({"type": "ERROR", "object": {"kind": "Status", "apiVersion": "v1", "metadata": {}, "status": "Failure", "message": "too old resource version", "reason": "Expired", "code": 410}})).unwrap();
            st.send_lines(wi, vec![line]);
            st.watches[wi].tx = None;
            count(&mut st, "watch_gone_410_event");
        } else {
            st.flush();
        }
        count(&mut st, "watch_opened");
        return Ok(Response::builder().status(200).header("content-type", "application/json").body(ChanBody { rx }).unwrap());
    }
    // list
    if st.fail_lists > 0 {
        st.fail_lists -= 1;
        count(&mut st, "http_500_on_list");
        return Ok(json_resp(StatusCode::INTERNAL_SERVER_ERROR, status_body(500, "InternalError", "boom")));
    }
    let limit: usize = q.get("limit").and_then(|s| s.parse().ok()).unwrap_or(usize::MAX);
    let (snap_rv, items, offset, snap_id) = match q.get("continue") {
        Some(tok) => {
            let mut it = tok.split('-');
            let sid: u64 = it.next().and_then(|s| s.parse().ok()).unwrap_or(u64::MAX);
            let off: usize = it.next().and_then(|s| s.parse().ok()).unwrap_or(0);
            if st.expire_continue {
                st.expire_continue = false;
                count(&mut st, "continue_token_expired_410");
                return Ok(json_resp(StatusCode::GONE, status_body(410, "Expired", "continue token expired")));
            }
            match st.snapshots.get(&sid) {
                Some((rv, items)) => (*rv, items.clone(), off, sid),
                None => return Ok(json_resp(StatusCode::GONE, status_body(410, "Expired", "unknown continue token"))),
            }
        }
        None => {
            let items: Vec<Value> = st.store.values().cloned().collect();
            let sid = st.next_snapshot;
            st.next_snapshot += 1;
            let rv = st.rv;
            st.snapshots.insert(sid, (rv, items.clone()));
            (rv, items, 0, sid)
        }
    };
    let end = offset.saturating_add(limit).min(items.len());
    let page = &items[offset.min(items.len())..end];
    let cont = if end < items.len() { format!("{snap_id}-{end}") } else { String::new() };
    if !cont.is_empty() {
        count(&mut st, "paginated_list_page");
    }
    count(&mut st, "list_served");
    let body = json!({"apiVersion": "agones.dev/v1", "kind": "GameServerList", "metadata": {"resourceVersion": snap_rv.to_string(), "continue": cont}, "items": page});
    Ok(json_resp(StatusCode::OK, serde_json::to_vec(&body).unwrap()))
}
