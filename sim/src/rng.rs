//! xoshiro256** seeded through SplitMix64. The only source of harness randomness.

#[derive(Clone, Debug)]
pub struct Rng {
    s: [u64; 4],
}

pub fn splitmix(x: &mut u64) -> u64 {
    *x = x.wrapping_add(0x9E37_79B9_7F4A_7C15);
    let mut z = *x;
    z = (z ^ (z >> 30)).wrapping_mul(0xBF58_476D_1CE4_E5B9);
    z = (z ^ (z >> 27)).wrapping_mul(0x94D0_49BB_1331_11EB);
    z ^ (z >> 31)
}

/// Seed of run `index` of `family` under the batch seed.
pub fn run_seed(batch_seed: u64, family: &str, index: u64) -> u64 {
    let mut x = batch_seed ^ 0xA5A5_5A5A_DEAD_BEEF;
    for b in family.bytes() {
        x = x.wrapping_mul(0x100_0000_01B3) ^ u64::from(b);
    }
    x ^= index.wrapping_mul(0xD6E8_FEB8_6659_FD93);
    splitmix(&mut x)
}

impl Rng {
    pub fn new(seed: u64) -> Self {
        let mut x = seed;
        let s = [
            splitmix(&mut x),
            splitmix(&mut x),
            splitmix(&mut x),
            splitmix(&mut x),
        ];
        Self { s }
    }

    pub fn next_u64(&mut self) -> u64 {
        let r = self.s[1].wrapping_mul(5).rotate_left(7).wrapping_mul(9);
        let t = self.s[1] << 17;
        self.s[2] ^= self.s[0];
        self.s[3] ^= self.s[1];
        self.s[1] ^= self.s[2];
        self.s[0] ^= self.s[3];
        self.s[2] ^= t;
        self.s[3] = self.s[3].rotate_left(45);
        r
    }

    /// Uniform in 0..n (n > 0).
    pub fn below(&mut self, n: u64) -> u64 {
        debug_assert!(n > 0);
        // multiply-shift; bias is irrelevant here
        ((u128::from(self.next_u64()) * u128::from(n)) >> 64) as u64
    }

    pub fn usize_below(&mut self, n: usize) -> usize {
        self.below(n as u64) as usize
    }

    /// Uniform in lo..=hi.
    pub fn range(&mut self, lo: u64, hi: u64) -> u64 {
        lo + self.below(hi - lo + 1)
    }

    pub fn chance(&mut self, num: u64, den: u64) -> bool {
        self.below(den) < num
    }

    pub fn pick<'a, T>(&mut self, xs: &'a [T]) -> &'a T {
        &xs[self.usize_below(xs.len())]
    }

    pub fn bytes(&mut self, n: usize) -> Vec<u8> {
        let mut v = Vec::with_capacity(n);
        while v.len() < n {
            let x = self.next_u64().to_le_bytes();
            let take = (n - v.len()).min(8);
            v.extend_from_slice(&x[..take]);
        }
        v
    }

    pub fn shuffle<T>(&mut self, xs: &mut [T]) {
        for i in (1..xs.len()).rev() {
            let j = self.usize_below(i + 1);
            xs.swap(i, j);
        }
    }

    pub fn fork(&mut self) -> Rng {
        Rng::new(self.next_u64())
    }
}

/// FNV-1a, used for trace hashes (stable across processes, unlike `DefaultHasher` with random keys).
#[derive(Clone, Copy)]
pub struct Fnv(pub u64);

impl Default for Fnv {
    fn default() -> Self {
        Fnv(0xcbf2_9ce4_8422_2325)
    }
}

impl Fnv {
    pub fn write(&mut self, bytes: &[u8]) {
        for b in bytes {
            self.0 ^= u64::from(*b);
            self.0 = self.0.wrapping_mul(0x100_0000_01b3);
        }
    }
    pub fn write_u64(&mut self, x: u64) {
        self.write(&x.to_le_bytes());
    }
    pub fn write_str(&mut self, s: &str) {
        self.write(s.as_bytes());
        self.write(&[0xff]);
    }
}
