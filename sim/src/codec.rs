//! The simulated client's own wire codec, written from the protocol description
//! (minecraft.wiki "Java Edition protocol"), not from /repo: VarInt, strings, frames, the
//! serverbound packets a client can send and a decoder for every clientbound packet the router
//! may send, including the NBT text component of Disconnect.

use serde_json::{Map, Value, json};

pub fn put_varint(out: &mut Vec<u8>, v: i32) {
    let mut x = v as u32;
    loop {
        let b = (x & 0x7f) as u8;
        x >>= 7;
        if x == 0 {
            out.push(b);
            return;
        }
        out.push(b | 0x80);
    }
}

pub fn varint(v: i32) -> Vec<u8> {
    let mut o = Vec::new();
    put_varint(&mut o, v);
    o
}

pub fn put_string(out: &mut Vec<u8>, s: &str) {
    put_varint(out, s.len() as i32);
    out.extend_from_slice(s.as_bytes());
}

pub fn put_bytes(out: &mut Vec<u8>, b: &[u8]) {
    put_varint(out, b.len() as i32);
    out.extend_from_slice(b);
}

/// length prefix + id + body
pub fn frame(id: i32, body: &[u8]) -> Vec<u8> {
    let idb = varint(id);
    let mut out = Vec::with_capacity(body.len() + 8);
    put_varint(&mut out, (idb.len() + body.len()) as i32);
    out.extend_from_slice(&idb);
    out.extend_from_slice(body);
    out
}

pub fn handshake_body(protocol: i32, host: &str, port: u16, next: i32) -> Vec<u8> {
    let mut b = Vec::new();
    put_varint(&mut b, protocol);
    put_string(&mut b, host);
    b.extend_from_slice(&port.to_be_bytes());
    put_varint(&mut b, next);
    b
}

pub fn login_start_body(name: &str, uuid: u128) -> Vec<u8> {
    let mut b = Vec::new();
    put_string(&mut b, name);
    b.extend_from_slice(&uuid.to_be_bytes());
    b
}

pub fn cookie_response_body(key: &str, payload: Option<&[u8]>) -> Vec<u8> {
    let mut b = Vec::new();
    put_string(&mut b, key);
    match payload {
        Some(p) => {
            b.push(1);
            put_bytes(&mut b, p);
        }
        None => b.push(0),
    }
    b
}

pub fn enc_response_body(secret_ct: &[u8], token_ct: &[u8]) -> Vec<u8> {
    let mut b = Vec::new();
    put_bytes(&mut b, secret_ct);
    put_bytes(&mut b, token_ct);
    b
}

#[allow(clippy::too_many_arguments)]
pub fn client_info_body(
    locale: &str,
    view: i8,
    chat_mode: i32,
    colors: bool,
    skin: u8,
    main_hand: i32,
    filtering: bool,
    listing: bool,
    particles: i32,
) -> Vec<u8> {
    let mut b = Vec::new();
    put_string(&mut b, locale);
    b.push(view as u8);
    put_varint(&mut b, chat_mode);
    b.push(u8::from(colors));
    b.push(skin);
    put_varint(&mut b, main_hand);
    b.push(u8::from(filtering));
    b.push(u8::from(listing));
    put_varint(&mut b, particles);
    b
}

pub struct Rd<'a> {
    pub b: &'a [u8],
    pub p: usize,
}

impl<'a> Rd<'a> {
    pub fn new(b: &'a [u8]) -> Self {
        Self { b, p: 0 }
    }
    pub fn left(&self) -> usize {
        self.b.len() - self.p
    }
    pub fn u8(&mut self) -> Option<u8> {
        let v = *self.b.get(self.p)?;
        self.p += 1;
        Some(v)
    }
    pub fn take(&mut self, n: usize) -> Option<&'a [u8]> {
        if self.left() < n {
            return None;
        }
        let s = &self.b[self.p..self.p + n];
        self.p += n;
        Some(s)
    }
    pub fn varint(&mut self) -> Option<i32> {
        let mut v: u32 = 0;
        for i in 0..5 {
            let b = self.u8()?;
            v |= u32::from(b & 0x7f) << (7 * i);
            if b & 0x80 == 0 {
                return Some(v as i32);
            }
        }
        None
    }
    pub fn u16(&mut self) -> Option<u16> {
        let s = self.take(2)?;
        Some(u16::from_be_bytes([s[0], s[1]]))
    }
    pub fn i32(&mut self) -> Option<i32> {
        let s = self.take(4)?;
        Some(i32::from_be_bytes([s[0], s[1], s[2], s[3]]))
    }
    pub fn u64(&mut self) -> Option<u64> {
        let s = self.take(8)?;
        let mut a = [0u8; 8];
        a.copy_from_slice(s);
        Some(u64::from_be_bytes(a))
    }
    pub fn u128(&mut self) -> Option<u128> {
        let s = self.take(16)?;
        let mut a = [0u8; 16];
        a.copy_from_slice(s);
        Some(u128::from_be_bytes(a))
    }
    pub fn string(&mut self) -> Option<String> {
        let n = self.varint()?;
        if n < 0 {
            return None;
        }
        let s = self.take(n as usize)?;
        String::from_utf8(s.to_vec()).ok()
    }
    pub fn bytes(&mut self) -> Option<Vec<u8>> {
        let n = self.varint()?;
        if n < 0 {
            return None;
        }
        Some(self.take(n as usize)?.to_vec())
    }
}

fn nbt_payload(r: &mut Rd, tag: u8, depth: usize) -> Option<Value> {
    if depth > 32 {
        return None;
    }
    Some(match tag {
        1 => json!(r.u8()? as i8),
        2 => json!(r.u16()? as i16),
        3 => json!(r.i32()?),
        4 => json!(r.u64()? as i64),
        5 => json!(f32::from_bits(r.i32()? as u32)),
        6 => json!(f64::from_bits(r.u64()?)),
        7 => {
            let n = r.i32()?;
            if n < 0 {
                return None;
            }
            Value::Array(r.take(n as usize)?.iter().map(|b| json!(*b as i8)).collect())
        }
        8 => {
            let n = r.u16()? as usize;
            Value::String(String::from_utf8(r.take(n)?.to_vec()).ok()?)
        }
        9 => {
            let et = r.u8()?;
            let n = r.i32()?;
            if n < 0 {
                return None;
            }
            let mut v = Vec::new();
            for _ in 0..n {
                v.push(nbt_payload(r, et, depth + 1)?);
            }
            Value::Array(v)
        }
        10 => {
            let mut m = Map::new();
            loop {
                let t = r.u8()?;
                if t == 0 {
                    break;
                }
                let n = r.u16()? as usize;
                let name = String::from_utf8(r.take(n)?.to_vec()).ok()?;
                let v = nbt_payload(r, t, depth + 1)?;
                m.insert(name, v);
            }
            Value::Object(m)
        }
        11 => {
            let n = r.i32()?;
            if n < 0 {
                return None;
            }
            let mut v = Vec::new();
            for _ in 0..n {
                v.push(json!(r.i32()?));
            }
            Value::Array(v)
        }
        12 => {
            let n = r.i32()?;
            if n < 0 {
                return None;
            }
            let mut v = Vec::new();
            for _ in 0..n {
                v.push(json!(r.u64()? as i64));
            }
            Value::Array(v)
        }
        _ => return None,
    })
}

/// Network NBT (nameless root): a string tag or a compound.
pub fn text_component(r: &mut Rd) -> Option<Value> {
    let tag = r.u8()?;
    nbt_payload(r, tag, 0)
}

#[derive(Clone, Copy, Debug, PartialEq, Eq)]
pub enum Phase {
    Status,
    Login,
    Config,
}

/// Decodes one clientbound packet body into (kind, fields). `None` = the client cannot parse it.
pub fn decode_clientbound(phase: Phase, id: i32, body: &[u8]) -> Option<(&'static str, Value)> {
    let mut r = Rd::new(body);
    let out = match (phase, id) {
        (Phase::Status, 0x00) => ("StatusResponse", json!({"body": r.string()?})),
        (Phase::Status, 0x01) => ("Pong", json!({"payload": r.u64()?})),
        (Phase::Login, 0x00) => ("LoginDisconnect", json!({"reason": r.string()?})),
        (Phase::Login, 0x01) => {
            let server_id = r.string()?;
            let key = r.bytes()?;
            let token = r.bytes()?;
            let auth = r.u8()?;
            (
                "EncryptionRequest",
                json!({"server_id": server_id, "public_key": crate::world::hex(&key),
                       "verify_token": crate::world::hex(&token), "should_authenticate": auth}),
            )
        }
        (Phase::Login, 0x02) => {
            let uuid = r.u128()?;
            let name = r.string()?;
            let nprops = r.varint()?;
            let mut props = Vec::new();
            for _ in 0..nprops.max(0) {
                let n = r.string()?;
                let v = r.string()?;
                let has_sig = r.u8()?;
                let sig = if has_sig != 0 { Some(r.string()?) } else { None };
                props.push(json!({"name": n, "value": v, "signature": sig}));
            }
            (
                "LoginSuccess",
                json!({"uuid": format!("{uuid:032x}"), "name": name, "properties": props}),
            )
        }
        (Phase::Login, 0x03) => ("SetCompression", json!({"threshold": r.varint()?})),
        (Phase::Login, 0x04) => {
            let _ = r.take(r.left());
            ("LoginPluginRequest", json!({}))
        }
        (Phase::Login, 0x05) => ("CookieRequest", json!({"key": r.string()?})),
        (Phase::Config, 0x00) => ("CookieRequest", json!({"key": r.string()?})),
        (Phase::Config, 0x02) => {
            let v = text_component(&mut r)?;
            ("Disconnect", json!({"reason": v}))
        }
        (Phase::Config, 0x03) => ("FinishConfiguration", json!({})),
        (Phase::Config, 0x04) => ("KeepAlive", json!({"id": r.u64()?})),
        (Phase::Config, 0x05) => ("Ping", json!({"id": r.i32()?})),
        (Phase::Config, 0x0A) => {
            let key = r.string()?;
            let payload = r.bytes()?;
            (
                "StoreCookie",
                json!({"key": key, "payload": crate::world::hex(&payload)}),
            )
        }
        (Phase::Config, 0x0B) => {
            let host = r.string()?;
            let port = r.varint()?;
            ("Transfer", json!({"host": host, "port": port}))
        }
        (Phase::Config, 0x01 | 0x06..=0x09 | 0x0C..=0x10) => {
            let _ = r.take(r.left());
            ("OtherConfig", json!({"id": id}))
        }
        _ => return None,
    };
    if r.left() != 0 {
        return None;
    }
    Some(out)
}
