//! Per-run shared state: the event log, named signals (service completions etc.) that transport
//! gates can wait for, and counters of faults that actually fired / reach probes.

use serde::{Deserialize, Serialize};
use serde_json::Value;
use std::collections::BTreeMap;
use std::sync::{Arc, Mutex};
use std::task::Waker;
use tokio::time::Instant;

#[derive(Clone, Debug, Serialize, Deserialize, PartialEq)]
pub struct Event {
    pub seq: u64,
    pub t_ns: u64,
    pub actor: String,
    pub kind: String,
    pub detail: Value,
}

pub struct World {
    pub t0: Instant,
    pub log: Vec<Event>,
    pub signals: BTreeMap<String, u64>,
    waiters: Vec<Waker>,
    pub faults: BTreeMap<String, u64>,
    pub probes: BTreeMap<String, u64>,
}

pub type W = Arc<Mutex<World>>;

pub fn new_world() -> W {
    Arc::new(Mutex::new(World {
        t0: Instant::now(),
        log: Vec::new(),
        signals: BTreeMap::new(),
        waiters: Vec::new(),
        faults: BTreeMap::new(),
        probes: BTreeMap::new(),
    }))
}

impl World {
    pub fn now_ns(&self) -> u64 {
        Instant::now().saturating_duration_since(self.t0).as_nanos() as u64
    }

    pub fn ev(&mut self, actor: &str, kind: &str, detail: Value) {
        let _p = crate::alloc::pause();
        let seq = self.log.len() as u64;
        let t_ns = self.now_ns();
        self.log.push(Event {
            seq,
            t_ns,
            actor: actor.to_string(),
            kind: kind.to_string(),
            detail,
        });
    }

    pub fn signal(&mut self, name: &str) {
        let t = self.now_ns();
        self.signals.entry(name.to_string()).or_insert(t);
        for w in self.waiters.drain(..) {
            w.wake();
        }
    }

    pub fn signalled(&self, name: &str) -> Option<u64> {
        self.signals.get(name).copied()
    }

    pub fn wait_signal(&mut self, waker: &Waker) {
        self.waiters.push(waker.clone());
    }

    pub fn fault(&mut self, name: &str) {
        *self.faults.entry(name.to_string()).or_insert(0) += 1;
    }

    pub fn probe(&mut self, name: &str) {
        *self.probes.entry(name.to_string()).or_insert(0) += 1;
    }
}

pub fn ev(w: &W, actor: &str, kind: &str, detail: Value) {
    w.lock().unwrap().ev(actor, kind, detail);
}

pub fn now_ns(w: &W) -> u64 {
    w.lock().unwrap().now_ns()
}

pub fn hex(b: &[u8]) -> String {
    const H: &[u8; 16] = b"0123456789abcdef";
    let mut s = String::with_capacity(b.len() * 2);
    for x in b {
        s.push(H[(x >> 4) as usize] as char);
        s.push(H[(x & 15) as usize] as char);
    }
    s
}

pub fn unhex(s: &str) -> Vec<u8> {
    let b = s.as_bytes();
    let v = |c: u8| -> u8 {
        match c {
            b'0'..=b'9' => c - b'0',
            b'a'..=b'f' => c - b'a' + 10,
            b'A'..=b'F' => c - b'A' + 10,
            _ => 0,
        }
    };
    b.chunks(2)
        .filter(|c| c.len() == 2)
        .map(|c| (v(c[0]) << 4) | v(c[1]))
        .collect()
}

/// serde helper: `Vec<u8>` as a hex string.
pub mod hexser {
    use serde::{Deserialize, Deserializer, Serializer};
    pub fn serialize<S: Serializer>(v: &Vec<u8>, s: S) -> Result<S::Ok, S::Error> {
        s.serialize_str(&super::hex(v))
    }
    pub fn deserialize<'de, D: Deserializer<'de>>(d: D) -> Result<Vec<u8>, D::Error> {
        let s = String::deserialize(d)?;
        Ok(super::unhex(&s))
    }
}

/// serde helper: `Option<Vec<u8>>` as an optional hex string.
pub mod hexopt {
    use serde::{Deserialize, Deserializer, Serializer};
    pub fn serialize<S: Serializer>(v: &Option<Vec<u8>>, s: S) -> Result<S::Ok, S::Error> {
        match v {
            Some(v) => s.serialize_some(&super::hex(v)),
            None => s.serialize_none(),
        }
    }
    pub fn deserialize<'de, D: Deserializer<'de>>(d: D) -> Result<Option<Vec<u8>>, D::Error> {
        let s = Option::<String>::deserialize(d)?;
        Ok(s.map(|s| super::unhex(&s)))
    }
}
