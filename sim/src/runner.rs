//! Batch runner: seeded generation, 16-way parallel execution (one paused runtime per run),
//! violation collection, generic JSON shrinking, replay files, known-finding attribution by
//! counterfactual re-execution, and the evidence file.

use crate::rng::{Rng, run_seed};
use serde::Serialize;
use serde::de::DeserializeOwned;
use serde_json::{Value, json};
use std::collections::{BTreeMap, BTreeSet, HashSet};
use std::path::PathBuf;
use std::sync::Mutex;
use std::sync::atomic::{AtomicBool, AtomicU64, Ordering};
use std::time::Instant;

#[derive(Clone, Copy, Debug, PartialEq, Eq)]
pub enum Tier {
    Quick,
    Thorough,
}

impl Tier {
    pub fn name(self) -> &'static str {
        match self {
            Tier::Quick => "quick",
            Tier::Thorough => "thorough",
        }
    }
}

#[derive(Clone, Debug, Serialize, PartialEq)]
pub struct Violation {
    /// `rule` or `rule/class`: shrinking and replay must reproduce it exactly
    pub rule: String,
    pub message: String,
}

#[derive(Clone, Debug, Default)]
pub struct RunReport {
    pub violations: Vec<Violation>,
    pub trace_hash: u64,
    pub full_hash: u64,
    /// a fault fired inside an in-flight operation (or the family's own rule for "non-trivial")
    pub nontrivial: bool,
    pub faults: BTreeMap<String, u64>,
    pub probes: BTreeMap<String, u64>,
    pub sim_ns: u64,
    /// executions of the system under simulation this evaluation needed
    pub runs: u64,
}

impl RunReport {
    pub fn violate(&mut self, rule: &str, message: String) {
        if !self.violations.iter().any(|v| v.rule == rule) {
            self.violations.push(Violation {
                rule: rule.to_string(),
                message,
            });
        }
    }
    pub fn merge_counts(&mut self, faults: &BTreeMap<String, u64>, probes: &BTreeMap<String, u64>) {
        for (k, v) in faults {
            *self.faults.entry(k.clone()).or_insert(0) += v;
        }
        for (k, v) in probes {
            *self.probes.entry(k.clone()).or_insert(0) += v;
        }
    }
}

pub trait Check: Sync + Send + 'static {
    type Sc: Serialize + DeserializeOwned + Clone;
    fn id(&self) -> &'static str;
    fn level(&self) -> &'static str;
    /// how cases are generated and what makes one non-trivial / distinct
    fn rule_text(&self) -> String;
    fn assumptions(&self) -> Vec<String>;
    fn components(&self) -> Value;
    fn count(&self, tier: Tier) -> u64;
    fn generate(&self, rng: &mut Rng, index: u64, tier: Tier) -> Self::Sc;
    fn execute(&self, sc: &Self::Sc) -> RunReport;
    /// Removes the trigger of a known finding from the scenario (None: trigger not present).
    fn neutralise(&self, _sc: &Self::Sc, _trigger: &str) -> Option<Self::Sc> {
        None
    }
}

pub trait Erased: Sync + Send {
    fn id(&self) -> &'static str;
    fn level(&self) -> &'static str;
    fn rule_text(&self) -> String;
    fn assumptions(&self) -> Vec<String>;
    fn components(&self) -> Value;
    fn count(&self, tier: Tier) -> u64;
    fn run_index(&self, seed: u64, index: u64, tier: Tier, want_sc: bool) -> (RunReport, Option<Value>);
    fn scenario(&self, seed: u64, index: u64, tier: Tier) -> Value;
    fn execute_json(&self, sc: &Value) -> Option<RunReport>;
    fn neutralise_json(&self, sc: &Value, trigger: &str) -> Option<Value>;
}

pub struct Wrap<C: Check>(pub C);

impl<C: Check> Erased for Wrap<C> {
    fn id(&self) -> &'static str {
        self.0.id()
    }
    fn level(&self) -> &'static str {
        self.0.level()
    }
    fn rule_text(&self) -> String {
        self.0.rule_text()
    }
    fn assumptions(&self) -> Vec<String> {
        self.0.assumptions()
    }
    fn components(&self) -> Value {
        self.0.components()
    }
    fn count(&self, tier: Tier) -> u64 {
        self.0.count(tier)
    }
    fn run_index(&self, seed: u64, index: u64, tier: Tier, want_sc: bool) -> (RunReport, Option<Value>) {
        let mut rng = Rng::new(run_seed(seed, self.0.id(), index));
        let sc = self.0.generate(&mut rng, index, tier);
        let rep = self.0.execute(&sc);
        let v = if want_sc || !rep.violations.is_empty() {
            serde_json::to_value(&sc).ok()
        } else {
            None
        };
        (rep, v)
    }
    fn scenario(&self, seed: u64, index: u64, tier: Tier) -> Value {
        let mut rng = Rng::new(run_seed(seed, self.0.id(), index));
        serde_json::to_value(self.0.generate(&mut rng, index, tier)).unwrap_or(Value::Null)
    }
    fn execute_json(&self, sc: &Value) -> Option<RunReport> {
        let sc: C::Sc = serde_json::from_value(sc.clone()).ok()?;
        Some(self.0.execute(&sc))
    }
    fn neutralise_json(&self, sc: &Value, trigger: &str) -> Option<Value> {
        let sc: C::Sc = serde_json::from_value(sc.clone()).ok()?;
        let n = self.0.neutralise(&sc, trigger)?;
        serde_json::to_value(&n).ok()
    }
}

pub fn verif_dir() -> PathBuf {
    std::env::var("VERIF_DIR")
        .map(PathBuf::from)
        .unwrap_or_else(|_| PathBuf::from("/verif"))
}

/// Where evidence and replay files go (default: the verif directory itself).
pub fn out_dir() -> PathBuf {
    std::env::var("VERIF_OUT").map(PathBuf::from).unwrap_or_else(|_| verif_dir())
}

fn workers() -> usize {
    std::env::var("VERIF_WORKERS")
        .ok()
        .and_then(|s| s.parse().ok())
        .unwrap_or(16)
}

pub fn seed_from_env() -> u64 {
    std::env::var("VERIF_SEED")
        .ok()
        .and_then(|s| s.parse().ok())
        .unwrap_or(1)
}

#[derive(Default)]
struct Acc {
    evaluations: u64,
    runs: u64,
    nontrivial: HashSet<u64>,
    all_traces: HashSet<u64>,
    faults: BTreeMap<String, u64>,
    probes: BTreeMap<String, u64>,
    sim_ns: u128,
    violations: Vec<(u64, Violation, Value)>,
    samples: Vec<(u64, Value)>,
    hashes: Vec<(u64, u64)>,
}

pub struct BatchResult {
    pub evaluations: u64,
    pub runs: u64,
    pub distinct_nontrivial: u64,
    pub distinct_traces: u64,
    pub faults: BTreeMap<String, u64>,
    pub probes: BTreeMap<String, u64>,
    pub sim_ns: u128,
    pub violations: Vec<(u64, Violation, Value)>,
    pub samples: Vec<Value>,
    pub hashes: Vec<(u64, u64)>,
    pub wall_s: f64,
    pub budget_hit: bool,
}

pub fn run_batch(
    check: &dyn Erased,
    seed: u64,
    tier: Tier,
    count: u64,
    keep_hashes: bool,
    budget_s: f64,
) -> BatchResult {
    let next = AtomicU64::new(0);
    let stop = AtomicBool::new(false);
    let cap = AtomicU64::new(count);
    let budget_hit = AtomicBool::new(false);
    let total = Mutex::new(Acc::default());
    let start = Instant::now();
    let nw = workers().max(1);
    // watchdog: (index being evaluated or u64::MAX, milliseconds since `start` at which it began)
    let slots: Vec<(AtomicU64, AtomicU64)> = (0..nw).map(|_| (AtomicU64::new(u64::MAX), AtomicU64::new(0))).collect();
    let active = AtomicU64::new(nw as u64);
    let tids: Vec<AtomicU64> = (0..nw).map(|_| AtomicU64::new(0)).collect();
    std::thread::scope(|s| {
        s.spawn(|| {
            // An evaluation counts as stuck when its thread has burnt `limit` seconds of CPU on one and the same
            // index (a spinning loop does; a paused or overloaded machine does not: wall-clock time alone would
            // raise a false alarm when the VM is suspended or starved). Wall-clock is only the fallback, with a
            // tenfold margin, where /proc is not available.
            let limit = stuck_limit_s() as f64;
            // (an evaluation that is *blocked* - a lock it already holds, a channel nobody feeds - burns no CPU: it
            // counts as stuck after five times the limit in watchdog wake-ups of 200 ms, which a suspended machine
            // does not produce either)
            let mut ticks: Vec<u64> = vec![0; nw];
            let mut seen: Vec<(u64, Option<f64>, Instant)> = (0..nw).map(|_| (u64::MAX, None, Instant::now())).collect();
            while active.load(Ordering::SeqCst) > 0 {
                std::thread::sleep(std::time::Duration::from_millis(200));
                for (k, (idx, _began)) in slots.iter().enumerate() {
                    let i = idx.load(Ordering::SeqCst);
                    if i == u64::MAX {
                        seen[k].0 = u64::MAX;
                        continue;
                    }
                    let tid = tids[k].load(Ordering::SeqCst);
                    if seen[k].0 != i {
                        seen[k] = (i, thread_cpu_secs(tid), Instant::now());
                        ticks[k] = 0;
                        continue;
                    }
                    ticks[k] += 1;
                    let stuck = match (seen[k].1, thread_cpu_secs(tid)) {
                        (Some(a), Some(b)) => b - a > limit,
                        _ => seen[k].2.elapsed().as_secs_f64() > 10.0 * limit,
                    } || ticks[k] as f64 > 25.0 * limit;
                    if stuck {
                        report_stuck(check, seed, tier, i);
                    }
                }
            }
        });
        for w in 0..nw {
            let slot = &slots[w];
            let tid_slot = &tids[w];
            let active = &active;
            let (next, stop, cap, budget_hit, total) = (&next, &stop, &cap, &budget_hit, &total);
            s.spawn(move || {
                tid_slot.store(current_tid(), Ordering::SeqCst);
                let mut acc = Acc::default();
                loop {
                    if stop.load(Ordering::Relaxed) {
                        break;
                    }
                    let i = next.fetch_add(1, Ordering::Relaxed);
                    if i >= cap.load(Ordering::Relaxed) {
                        break;
                    }
                    if i % 64 == 0 && start.elapsed().as_secs_f64() > budget_s {
                        budget_hit.store(true, Ordering::Relaxed);
                        stop.store(true, Ordering::Relaxed);
                        break;
                    }
                    let want_sc = i < 3;
                    slot.1.store(start.elapsed().as_millis() as u64, Ordering::SeqCst);
                    slot.0.store(i, Ordering::SeqCst);
                    let (rep, sc) = check.run_index(seed, i, tier, want_sc);
                    slot.0.store(u64::MAX, Ordering::SeqCst);
                    acc.evaluations += 1;
                    acc.runs += rep.runs;
                    if rep.runs == 0 {
                        // the check's own domain guard turned the generated scenario down: nothing was executed
                        *acc.probes.entry("generated_scenario_outside_the_checks_domain".into()).or_insert(0) += 1;
                    }
                    acc.all_traces.insert(rep.trace_hash);
                    if rep.nontrivial {
                        acc.nontrivial.insert(rep.trace_hash);
                    }
                    for (k, v) in &rep.faults {
                        *acc.faults.entry(k.clone()).or_insert(0) += v;
                    }
                    for (k, v) in &rep.probes {
                        *acc.probes.entry(k.clone()).or_insert(0) += v;
                    }
                    acc.sim_ns += u128::from(rep.sim_ns);
                    if keep_hashes {
                        acc.hashes.push((i, rep.full_hash));
                    }
                    if want_sc && let Some(sc) = &sc {
                        acc.samples.push((i, sc.clone()));
                    }
                    if !rep.violations.is_empty() {
                        let sc = sc.unwrap_or(Value::Null);
                        for v in rep.violations {
                            acc.violations.push((i, v, sc.clone()));
                        }
                        // everything below the lowest violating index still runs, so the
                        // representative per rule does not depend on thread timing
                        cap.fetch_min(i.saturating_add(512), Ordering::Relaxed);
                    }
                }
                let mut t = total.lock().unwrap();
                t.evaluations += acc.evaluations;
                t.runs += acc.runs;
                t.nontrivial.extend(acc.nontrivial);
                t.all_traces.extend(acc.all_traces);
                for (k, v) in acc.faults {
                    *t.faults.entry(k).or_insert(0) += v;
                }
                for (k, v) in acc.probes {
                    *t.probes.entry(k).or_insert(0) += v;
                }
                t.sim_ns += acc.sim_ns;
                t.violations.extend(acc.violations);
                t.samples.extend(acc.samples);
                t.hashes.extend(acc.hashes);
                drop(t);
                active.fetch_sub(1, Ordering::SeqCst);
            });
        }
    });
    let mut t = total.into_inner().unwrap();
    t.violations.sort_by_key(|v| v.0);
    t.samples.sort_by_key(|v| v.0);
    t.hashes.sort();
    BatchResult {
        evaluations: t.evaluations,
        runs: t.runs,
        distinct_nontrivial: t.nontrivial.len() as u64,
        distinct_traces: t.all_traces.len() as u64,
        faults: t.faults,
        probes: t.probes,
        sim_ns: t.sim_ns,
        violations: t.violations,
        samples: t.samples.into_iter().map(|s| s.1).collect(),
        hashes: t.hashes,
        wall_s: start.elapsed().as_secs_f64(),
        budget_hit: budget_hit.load(Ordering::Relaxed),
    }
}

/// Real seconds one evaluation may take before it counts as not terminating. A run costs micro- to
/// milliseconds; only a loop in the code under simulation that never yields gets anywhere near this.
fn stuck_limit_s() -> u64 {
    std::env::var("VERIF_STUCK_S").ok().and_then(|s| s.parse().ok()).unwrap_or(60)
}

pub const STUCK_RULE: &str = "run_does_not_terminate";

/// Kernel thread id of the calling thread (0 if it cannot be determined).
fn current_tid() -> u64 {
    std::fs::read_link("/proc/thread-self").ok().and_then(|p| p.file_name().and_then(|n| n.to_str().and_then(|n| n.parse().ok()))).unwrap_or(0)
}

/// CPU seconds (user + system) the thread has consumed so far, from /proc (clock ticks of 1/100 s).
fn thread_cpu_secs(tid: u64) -> Option<f64> {
    if tid == 0 {
        return None;
    }
    let stat = std::fs::read_to_string(format!("/proc/self/task/{tid}/stat")).ok()?;
    // the command name may contain spaces: fields are counted after the closing parenthesis
    let rest = &stat[stat.rfind(')')? + 1..];
    let f: Vec<&str> = rest.split_whitespace().collect();
    let utime: f64 = f.get(11)?.parse().ok()?;
    let stime: f64 = f.get(12)?.parse().ok()?;
    Some((utime + stime) / 100.0)
}

/// An evaluation that spins without ever yielding to the simulator cannot be pre-empted on one thread
/// and cannot be shrunk; it is reported as it is (seed, index, generated scenario) and the process ends.
fn report_stuck(check: &dyn Erased, seed: u64, tier: Tier, index: u64) -> ! {
    // regenerate the scenario on the side, in another process: generation is a pure function of seed and index, but a
    // generator that executes the scenario itself (to learn its frame layout) would hang just like the evaluation did
    let sc = std::env::current_exe()
        .ok()
        .and_then(|exe| std::process::Command::new(exe).args(["scenario", check.id(), &seed.to_string(), &index.to_string(), tier.name()]).stdout(std::process::Stdio::piped()).stderr(std::process::Stdio::null()).spawn().ok())
        .and_then(|mut child| {
            let t0 = Instant::now();
            loop {
                match child.try_wait() {
                    Ok(Some(_)) => break child.wait_with_output().ok().and_then(|o| serde_json::from_slice::<Value>(&o.stdout).ok()),
                    Ok(None) if t0.elapsed().as_secs() < 20 => std::thread::sleep(std::time::Duration::from_millis(100)),
                    _ => {
                        let _ = child.kill();
                        let _ = child.wait();
                        break None;
                    }
                }
            }
        })
        .unwrap_or(Value::Null);
    let msg = format!("evaluation #{index} did not finish (more than {} s of CPU time burnt, or blocked for five times as long): the code under simulation loops without yielding or blocks the thread (virtual time cannot advance)", stuck_limit_s());
    let path = write_replay_tier(check, seed, index, STUCK_RULE, &sc, &msg, Some(tier));
    println!("violation: property={} rule={} seed={} index={} (not minimised): {}", check.id(), STUCK_RULE, seed, index, msg);
    println!("VIOLATION property={} replay={}", check.id(), path.display());
    let ev = json!({
        "property_id": check.id(), "tier": tier.name(), "seed": seed, "level": check.level(),
        "coverage": {"evaluations": index, "distinct_nontrivial": 0, "rule": check.rule_text(), "samples": [], "exhaustive": false, "aborted": STUCK_RULE},
        "assumptions": check.assumptions(), "violations": 1,
    });
    let dir = out_dir().join("evidence");
    let _ = std::fs::create_dir_all(&dir);
    let _ = std::fs::write(dir.join(format!("{}.json", check.id())), serde_json::to_string_pretty(&ev).unwrap());
    std::process::exit(1);
}

fn fails_with(check: &dyn Erased, sc: &Value, rule: &str) -> bool {
    match check.execute_json(sc) {
        Some(rep) => rep.violations.iter().any(|v| v.rule == rule),
        None => false,
    }
}

/// One candidate simplification: a small description that is applied to the current scenario only
/// when it is its turn (a scenario may hold tens of thousands of operations).
#[derive(Clone)]
enum Edit {
    /// replace the value at the path
    Set(Vec<PathSeg>, Value),
    /// remove `len` elements starting at `from` from the array at the path
    Cut(Vec<PathSeg>, usize, usize),
}

/// Candidate simplifications of a JSON value by path: big cuts first, then smaller ones, then scalars.
fn candidates(v: &Value, out: &mut Vec<Edit>, path: &mut Vec<PathSeg>) {
    match v {
        Value::Array(a) => {
            // remove chunks of n/2, n/4, ... elements, then single elements (from the back)
            let n = a.len();
            let mut size = n / 2;
            while size >= 2 {
                let mut from = 0;
                while from < n {
                    out.push(Edit::Cut(path.clone(), from, size.min(n - from)));
                    from += size;
                }
                size /= 2;
            }
            for i in (0..n).rev() {
                out.push(Edit::Cut(path.clone(), i, 1));
            }
            // descending into a huge array element by element is pointless within the execution budget
            if n <= 2000 {
                for (i, x) in a.iter().enumerate() {
                    path.push(PathSeg::Idx(i));
                    candidates(x, out, path);
                    path.pop();
                }
            }
        }
        Value::Object(m) => {
            for (k, x) in m {
                path.push(PathSeg::Key(k.clone()));
                candidates(x, out, path);
                path.pop();
            }
        }
        Value::Number(n) => {
            if let Some(u) = n.as_u64() {
                if u != 0 {
                    out.push(Edit::Set(path.clone(), json!(0)));
                    if u > 1 {
                        out.push(Edit::Set(path.clone(), json!(1)));
                        out.push(Edit::Set(path.clone(), json!(u / 2)));
                    }
                    if u > 1_000_000 {
                        // round to whole milliseconds / seconds
                        out.push(Edit::Set(path.clone(), json!(u / 1_000_000 * 1_000_000)));
                        out.push(Edit::Set(path.clone(), json!(u / 1_000_000_000 * 1_000_000_000)));
                    }
                }
            } else if let Some(i) = n.as_i64()
                && i != 0
            {
                out.push(Edit::Set(path.clone(), json!(0)));
            }
        }
        Value::Bool(true) => out.push(Edit::Set(path.clone(), json!(false))),
        Value::String(_) | Value::Bool(false) | Value::Null => {}
    }
}

#[derive(Clone)]
enum PathSeg {
    Key(String),
    Idx(usize),
}

fn get_at<'a>(root: &'a Value, path: &[PathSeg]) -> Option<&'a Value> {
    let mut v = root;
    for seg in path {
        v = match (seg, v) {
            (PathSeg::Key(k), Value::Object(m)) => m.get(k)?,
            (PathSeg::Idx(i), Value::Array(a)) => a.get(*i)?,
            _ => return None,
        };
    }
    Some(v)
}

fn apply_edit(root: &Value, e: &Edit) -> Option<Value> {
    match e {
        Edit::Set(path, new) => Some(replace_at(root, path, new.clone())),
        Edit::Cut(path, from, len) => {
            let Value::Array(a) = get_at(root, path)? else { return None };
            if *from >= a.len() {
                return None;
            }
            let mut b = a.clone();
            b.drain(*from..(*from + *len).min(a.len()));
            Some(replace_at(root, path, Value::Array(b)))
        }
    }
}

fn replace_at(root: &Value, path: &[PathSeg], new: Value) -> Value {
    fn go(v: &Value, path: &[PathSeg], new: Value) -> Value {
        let Some((h, t)) = path.split_first() else {
            return new;
        };
        match (h, v) {
            (PathSeg::Key(k), Value::Object(m)) => {
                let mut m = m.clone();
                if let Some(x) = m.get(k) {
                    let nx = go(x, t, new);
                    m.insert(k.clone(), nx);
                }
                Value::Object(m)
            }
            (PathSeg::Idx(i), Value::Array(a)) => {
                let mut a = a.clone();
                if let Some(x) = a.get(*i) {
                    a[*i] = go(x, t, new);
                }
                Value::Array(a)
            }
            _ => v.clone(),
        }
    }
    go(root, path, new)
}

thread_local! {
    /// set while the shrinker evaluates candidates: a check may skip an expensive confirmation phase there (the verdict
    /// on the scenario as found, and on the minimised scenario afterwards, is always the full one)
    pub static SHRINKING: std::cell::Cell<bool> = const { std::cell::Cell::new(false) };
}

pub fn shrink(check: &dyn Erased, sc: Value, rule: &str, max_exec: usize) -> (Value, usize) {
    struct Reset;
    impl Drop for Reset {
        fn drop(&mut self) {
            SHRINKING.with(|s| s.set(false));
        }
    }
    SHRINKING.with(|s| s.set(true));
    let _reset = Reset;
    let mut cur = sc;
    let mut execs = 0usize;
    loop {
        let mut cands = Vec::new();
        candidates(&cur, &mut cands, &mut Vec::new());
        let mut progressed = false;
        for e in cands {
            if execs >= max_exec {
                return (cur, execs);
            }
            let Some(c) = apply_edit(&cur, &e) else { continue };
            if c == cur {
                continue;
            }
            execs += 1;
            if fails_with(check, &c, rule) {
                cur = c;
                progressed = true;
                break;
            }
        }
        if !progressed {
            return (cur, execs);
        }
    }
}

#[derive(Clone, Debug, serde::Deserialize)]
pub struct KnownFinding {
    pub property: String,
    pub key: String,
    pub trigger: String,
    pub what: String,
}

#[derive(Clone, Debug, Default, serde::Deserialize)]
pub struct KnownFile {
    #[serde(default)]
    pub findings: Vec<KnownFinding>,
    #[serde(default)]
    pub fixed: Vec<String>,
}

pub fn load_known() -> KnownFile {
    let p = verif_dir().join("known_findings.json");
    match std::fs::read_to_string(&p) {
        Ok(s) => serde_json::from_str(&s).unwrap_or_default(),
        Err(_) => KnownFile::default(),
    }
}

pub fn write_replay(check: &dyn Erased, seed: u64, index: u64, rule: &str, sc: &Value, msg: &str) -> PathBuf {
    write_replay_tier(check, seed, index, rule, sc, msg, None)
}

pub fn write_replay_tier(check: &dyn Erased, seed: u64, index: u64, rule: &str, sc: &Value, msg: &str, tier: Option<Tier>) -> PathBuf {
    let dir = out_dir().join("replays");
    let _ = std::fs::create_dir_all(&dir);
    let safe_rule: String = rule
        .chars()
        .map(|c| if c.is_alphanumeric() || c == '_' || c == '-' { c } else { '_' })
        .collect();
    let path = dir.join(format!("{}-{}-{}-{}.json", check.id(), seed, index, safe_rule));
    let body = json!({
        "property": check.id(),
        "rule": rule,
        "message": msg,
        "seed": seed,
        "index": index,
        "tier": tier.map(|t| t.name()),
        "scenario": sc,
    });
    let _ = std::fs::write(&path, serde_json::to_string_pretty(&body).unwrap());
    path
}

pub fn write_history_replay(check: &dyn Erased, seed: u64, upto: u64, rule: &str, msg: &str, tier: Tier) -> PathBuf {
    let dir = out_dir().join("replays");
    let _ = std::fs::create_dir_all(&dir);
    let path = dir.join(format!("{}-{}-history{}-{}.json", check.id(), seed, upto, rule));
    let body = json!({"property": check.id(), "rule": rule, "message": msg, "seed": seed, "index": upto, "tier": tier.name(), "scenario": Value::Null, "history_upto": upto});
    let _ = std::fs::write(&path, serde_json::to_string_pretty(&body).unwrap());
    path
}

/// Re-executes a replay file. Returns (reproduced, report text).
pub fn replay_file(checks: &[Box<dyn Erased>], path: &str) -> i32 {
    let Ok(s) = std::fs::read_to_string(path) else {
        eprintln!("cannot read {path}");
        return 2;
    };
    let Ok(v) = serde_json::from_str::<Value>(&s) else {
        eprintln!("cannot parse {path}");
        return 2;
    };
    let id = v["property"].as_str().unwrap_or("");
    let rule = v["rule"].as_str().unwrap_or("");
    let Some(check) = checks.iter().find(|c| c.id() == id) else {
        eprintln!("unknown property {id}");
        return 2;
    };
    // a history: the evaluations 0..=upto of the batch, one after the other on this thread of a fresh process (the code
    // under simulation keeps state between runs, so that no single scenario shows the violation on its own)
    if let Some(upto) = v["history_upto"].as_u64() {
        let seed = v["seed"].as_u64().unwrap_or(1);
        let tier = if v["tier"].as_str() == Some("thorough") { Tier::Thorough } else { Tier::Quick };
        for i in 0..=upto {
            let (rep, _) = check.run_index(seed, i, tier, false);
            if let Some(viol) = rep.violations.iter().find(|x| x.rule == rule) {
                println!("replayed violation property={id} rule={} : after the evaluations 0..{i} of the batch in this order: {}", viol.rule, viol.message);
                println!("VIOLATION property={id} replay={path}");
                return 1;
            }
        }
        println!("replay did not reproduce rule {rule}");
        return 0;
    }
    // a replay of a run that never terminates must itself terminate
    let limit = stuck_limit_s();
    let scv = v["scenario"].clone();
    // (a scenario whose very generation hangs is stored as seed and index only)
    let regen = if scv.is_null() { v["seed"].as_u64().zip(v["index"].as_u64()).map(|(s, i)| (s, i, if v["tier"].as_str() == Some("thorough") { Tier::Thorough } else { Tier::Quick })) } else { None };
    let res = std::thread::scope(|s| {
        let (tx, rx) = std::sync::mpsc::channel();
        let tid = std::sync::Arc::new(AtomicU64::new(0));
        let tid2 = tid.clone();
        s.spawn(move || {
            tid2.store(current_tid(), Ordering::SeqCst);
            let scv = match regen {
                Some((s, i, t)) => check.scenario(s, i, t),
                None => scv,
            };
            let _ = tx.send(check.execute_json(&scv));
        });
        let started = Instant::now();
        let mut polls = 0u64;
        let mut cpu0: Option<f64> = None;
        loop {
            match rx.recv_timeout(std::time::Duration::from_millis(200)) {
                Ok(r) => break Some(r),
                Err(std::sync::mpsc::RecvTimeoutError::Disconnected) => break None,
                Err(std::sync::mpsc::RecvTimeoutError::Timeout) => {}
            }
            let now = thread_cpu_secs(tid.load(Ordering::SeqCst));
            if cpu0.is_none() {
                cpu0 = now;
            }
            polls += 1;
            let stuck = match (cpu0, now) {
                (Some(a), Some(b)) => b - a > limit as f64,
                _ => started.elapsed().as_secs() > 10 * limit,
            } || polls > 25 * limit;
            if stuck {
                println!("replayed violation property={id} rule={STUCK_RULE} : the evaluation does not finish (more than {limit} s of CPU time, or blocked for five times as long)");
                if rule == STUCK_RULE {
                    println!("VIOLATION property={id} replay={path}");
                    std::process::exit(1);
                }
                println!("replay did not reproduce rule {rule}");
                std::process::exit(0);
            }
        }
    });
    let Some(Some(rep)) = res else {
        eprintln!("scenario does not deserialise");
        return 2;
    };
    let mut hit = false;
    for viol in &rep.violations {
        println!("replayed violation property={id} rule={} : {}", viol.rule, viol.message);
        if viol.rule == rule {
            hit = true;
        }
    }
    println!("trace_hash={:016x} full_hash={:016x}", rep.trace_hash, rep.full_hash);
    if hit {
        println!("VIOLATION property={id} replay={path}");
        1
    } else {
        println!("replay did not reproduce rule {rule}");
        0
    }
}

pub fn run_check(check: &dyn Erased, tier: Tier) -> i32 {
    let seed = seed_from_env();
    let count = std::env::var("VERIF_COUNT")
        .ok()
        .and_then(|s| s.parse().ok())
        .unwrap_or_else(|| check.count(tier));
    let budget = std::env::var("VERIF_BUDGET_S")
        .ok()
        .and_then(|s| s.parse().ok())
        .unwrap_or(match tier {
            Tier::Quick => 240.0,
            Tier::Thorough => 2400.0,
        });
    println!(
        "check {} tier={} seed={} count={} workers={}",
        check.id(),
        tier.name(),
        seed,
        count,
        workers()
    );
    let res = run_batch(check, seed, tier, count, false, budget);
    let known = load_known();
    let mut exit = 0;
    let mut reported = 0u64;
    let mut known_hits: BTreeSet<String> = BTreeSet::new();
    // one representative (lowest index) per rule
    // (if the representative cannot be repeated - the code under simulation may keep state between the
    // evaluations of one thread - the next violating evaluations of that rule are tried before giving up)
    let mut by_rule: BTreeMap<String, Vec<(u64, Violation, Value)>> = BTreeMap::new();
    for (i, v, sc) in &res.violations {
        by_rule.entry(v.rule.clone()).or_default().push((*i, v.clone(), sc.clone()));
    }
    for (rule, cands) in by_rule.iter().take(6) {
      let ncand = cands.len().min(8);
      'cands: for (ci, (index, viol, sc)) in cands.iter().take(ncand).enumerate() {
        let max_exec = if std::env::var("VERIF_NOSHRINK").is_ok() { 0 } else { 600 };
        let (min_sc, execs) = shrink(check, sc.clone(), rule, max_exec);
        let msg = check
            .execute_json(&min_sc)
            .and_then(|r| r.violations.into_iter().find(|v| &v.rule == rule))
            .map(|v| v.message)
            .unwrap_or_else(|| viol.message.clone());
        // replays must reproduce (twice, in-process); otherwise it is a harness error
        if !fails_with(check, &min_sc, rule) || !fails_with(check, &min_sc, rule) {
            // The code under simulation may keep state across runs of one process (a process-wide cache, a
            // lock, an age): then only a fresh process can repeat the run. Try the scenario as it was found.
            let path = write_replay(check, seed, *index, rule, sc, &viol.message);
            let fresh = std::env::current_exe().ok().and_then(|exe| {
                std::process::Command::new(exe).args(["replay", &path.display().to_string()]).env("VERIF_WORKERS", "1").output().ok()
            });
            let reproduced = fresh.is_some_and(|o| String::from_utf8_lossy(&o.stdout).contains(&format!("VIOLATION property={}", check.id())));
            if reproduced {
                println!(
                    "violation: property={} rule={} seed={} index={} (not minimised: repeats only in a fresh process, the code under simulation keeps state between runs): {}",
                    check.id(),
                    rule,
                    seed,
                    index,
                    viol.message
                );
                println!("VIOLATION property={} replay={}", check.id(), path.display());
                reported += 1;
                break 'cands;
            }
            let _ = std::fs::remove_file(&path);
            if ci + 1 < ncand {
                continue 'cands;
            }
            // last resort: the batch itself as the history (evaluations 0..=upto in order, single thread, fresh process)
            let upto = cands.iter().take(ncand).map(|c| c.0).max().unwrap_or(*index).saturating_add(4096).min(60_000);
            let hpath = write_history_replay(check, seed, upto, rule, &viol.message, tier);
            let fresh = std::env::current_exe().ok().and_then(|exe| {
                std::process::Command::new(exe).args(["replay", &hpath.display().to_string()]).env("VERIF_WORKERS", "1").output().ok()
            });
            let out = fresh.map(|o| String::from_utf8_lossy(&o.stdout).to_string()).unwrap_or_default();
            if out.contains(&format!("VIOLATION property={}", check.id())) {
                let first = out.lines().find(|l| l.starts_with("replayed violation")).unwrap_or("").to_string();
                // the history ends where the violation showed (a shorter replay file that fails the same way)
                let shown: Option<u64> = first.split("evaluations 0..").nth(1).and_then(|r| r.split(' ').next()).and_then(|n| n.parse().ok());
                let _ = std::fs::remove_file(&hpath);
                let hpath = write_history_replay(check, seed, shown.unwrap_or(upto), rule, &viol.message, tier);
                println!(
                    "violation: property={} rule={} seed={} index={} (no single scenario repeats it: the code under simulation keeps state between runs; the replay file is the batch prefix as a history): {}",
                    check.id(),
                    rule,
                    seed,
                    index,
                    first
                );
                println!("VIOLATION property={} replay={}", check.id(), hpath.display());
                reported += 1;
                break 'cands;
            }
            let _ = std::fs::remove_file(&hpath);
            println!(
                "HARNESS-ERROR property={} rule={} index={} does not replay deterministically ({} violating evaluations of this rule tried)",
                check.id(),
                rule,
                index,
                ncand
            );
            exit = 2;
            break 'cands;
        }
        // known finding? counterfactual: neutralise the trigger, must pass then
        let mut attributed = None;
        for kf in known.findings.iter().filter(|k| k.property == check.id()) {
            if let Some(neutral) = check.neutralise_json(&min_sc, &kf.trigger)
                && !fails_with(check, &neutral, rule)
            {
                attributed = Some(kf.clone());
                break;
            }
        }
        match attributed {
            Some(kf) => {
                if known_hits.insert(kf.key.clone()) {
                    println!(
                        "KNOWN-FINDING: property={} {} [{}] (rule {}, e.g. seed {} index {}: {})",
                        check.id(),
                        kf.what,
                        kf.key,
                        rule,
                        seed,
                        index,
                        msg
                    );
                }
            }
            None => {
                let path = write_replay(check, seed, *index, rule, &min_sc, &msg);
                println!(
                    "violation: property={} rule={} seed={} index={} (minimised in {} executions): {}",
                    check.id(),
                    rule,
                    seed,
                    index,
                    execs,
                    msg
                );
                println!("VIOLATION property={} replay={}", check.id(), path.display());
                reported += 1;
                if exit == 0 {
                    exit = 1;
                }
            }
        }
        break 'cands;
      }
    }
    let runs_per_hour = if res.wall_s > 0.0 {
        (res.runs as f64 / res.wall_s * 3600.0) as u64
    } else {
        0
    };
    let ev = json!({
        "property_id": check.id(),
        "tier": tier.name(),
        "seed": seed,
        "level": check.level(),
        "coverage": {
            "evaluations": res.evaluations,
            "distinct_nontrivial": res.distinct_nontrivial,
            "rule": check.rule_text(),
            "samples": res.samples,
            "simulated_runs": res.runs,
            "distinct_event_order_traces": res.distinct_traces,
            "runs_per_hour": runs_per_hour,
            "seeds_per_hour": if res.wall_s > 0.0 { (res.evaluations as f64 / res.wall_s * 3600.0) as u64 } else { 0 },
            "simulated_time_s": (res.sim_ns / 1_000_000_000) as u64,
            "faults_fired": res.faults,
            "reach_probes": res.probes,
            "components": check.components(),
            "planned_evaluations": count,
            "budget_hit": res.budget_hit,
            "known_findings_hit": known_hits.iter().collect::<Vec<_>>(),
            "exhaustive": false,
        },
        "assumptions": check.assumptions(),
        "wall_s": res.wall_s,
        "violations": reported,
    });
    let dir = out_dir().join("evidence");
    let _ = std::fs::create_dir_all(&dir);
    let path = dir.join(format!("{}.json", check.id()));
    if let Err(e) = std::fs::write(&path, serde_json::to_string_pretty(&ev).unwrap()) {
        eprintln!("cannot write evidence: {e}");
        return 2;
    }
    if reported > 0 {
        exit = 1;
    }
    println!(
        "{}: {} evaluations ({} runs), {} distinct non-trivial traces, {} simulated s, {:.1}s wall, violations={} known={}",
        check.id(),
        res.evaluations,
        res.runs,
        res.distinct_nontrivial,
        res.sim_ns / 1_000_000_000,
        res.wall_s,
        reported,
        known_hits.len()
    );
    // a generator and its check's domain guard that have drifted apart would silently thin out the batch
    let outside = res.probes.get("generated_scenario_outside_the_checks_domain").copied().unwrap_or(0);
    if reported == 0 && res.evaluations >= 1000 && outside * 10 > res.evaluations {
        eprintln!("HARNESS-WARNING: {} of {} generated scenarios were turned down by the check's own domain guard", outside, res.evaluations);
    }
    exit
}

/// Combined hash of all per-run full hashes (ordered by index); used by the determinism self-test.
pub fn batch_fingerprint(check: &dyn Erased, seed: u64, tier: Tier, count: u64) -> (u64, Vec<(u64, u64)>) {
    let res = run_batch(check, seed, tier, count, true, 1e9);
    let mut h = crate::rng::Fnv::default();
    for (i, x) in &res.hashes {
        h.write_u64(*i);
        h.write_u64(*x);
    }
    (h.0, res.hashes)
}
